package main

import (
	"bytes"
	"fmt"
	"reflect"
	"strings"

	structform "github.com/elastic/go-structform"
	"github.com/elastic/go-structform/gotype"
	sfjson "github.com/elastic/go-structform/json"
)

// =================== C17: long histories ===================
// longhist<fmt> \t <n> <seed> \t L ok | L diff <what> | L skip | PANIC | HANG
//
// One parser, one encoder (and for json also one Iterator and one Unfolder) are used for n (10000 ..
// 20000) complete documents drawn from a handful of generated ones - typed and counted
// containers, indefinite lengths, nil pointers, typed maps included - and then for a probe; the
// probe's result must be what a new instance gives.  Counters, depth limits, pools and free
// lists that leak a little per document show up here and nowhere else.  Direct oracle, no model.
func (f *format) longHistRun(n int, seed uint64) string {
	r := newRng(seed)
	res := "L ok"
	o := guard(6*guardTime, func() {
		// documents: valid top-level values of the format, as bytes and as events
		var docs [][]byte
		for len(docs) < 7 {
			d := f.genItem(r)
			if f.name == "ubj" {
				d = sanitizeUbj(d)
			}
			chk := newRecorder(-1)
			if err := f.newParser(refRecorder{chk}).Parse(d); err != nil || len(chk.evs) == 0 {
				continue
			}
			docs = append(docs, d)
		}
		switch f.name {
		case "ubj":
			docs = append(docs, []byte("[$i#U\x02\x05\x06"), []byte("{$i#U\x01U\x01a\x07"), []byte("[#U\x01T"), []byte("[[$T#U\x02]"))
		case "cbor":
			docs = append(docs, []byte{0x9f, 0x81, 0x01, 0xff}, []byte{0xbf, 0x61, 'a', 0x82, 1, 2, 0xff}, []byte{0xa1, 0x61, 'k', 0x9f, 0xff})
		default:
			docs = append(docs, []byte(`{"a":[1,{"b":null}]}`), []byte("12"), []byte(`"x\ny"`))
		}
		num := func(i int64) event { return event{kind: evNum, sc: scI(kInt64, i)} }
		streams := [][]event{
			{{kind: evArrStart, n: -1}, {kind: evArrStart, n: 1}, num(1), {kind: evArrEnd}, {kind: evArrEnd}},
			{{kind: evObjStart, n: 1}, {kind: evKey, s: []byte("k")}, {kind: evArrStart, n: 2}, num(1), num(2), {kind: evArrEnd}, {kind: evObjEnd}},
			{{kind: evObjStart, n: -1}, {kind: evKey, s: []byte("k")}, {kind: evXArr, bt: structform.Int8Type, elems: []scalar{scI(kInt8, 1)}}, {kind: evObjEnd}},
			{{kind: evXObj, bt: structform.BoolType, mems: []member{{[]byte("b"), scalar{kind: evBool, b: true}}}}},
		}
		for len(streams) < 9 {
			o := f.encOpts
			o.nonfinite, o.longStr = false, false
			evs := r.genStream(o)
			w := &recWriter{failAt: -1}
			vs, _ := f.newVisitor(w, 0)
			if idx, _ := play(structform.EnsureExtVisitor(vs), evs); idx >= 0 {
				continue
			}
			streams = append(streams, evs)
		}
		// parser
		rec := newRecorder(-1)
		p := f.newParser(refRecorder{rec})
		for i := 0; i < n; i++ {
			rec.evs = rec.evs[:0]
			if err := p.Parse(docs[i%len(docs)]); err != nil {
				res = fmt.Sprintf("L diff parser refused document %d of the history", i)
				return
			}
		}
		probe := docs[int(seed)%len(docs)]
		rec.evs = nil
		err1 := p.Parse(probe)
		fresh := newRecorder(-1)
		err2 := f.newParser(refRecorder{fresh}).Parse(probe)
		// by-value or by-reference delivery depends on how far the parser's scratch buffer has grown:
		// not part of the comparison
		norm := func(evs []event) string {
			out := make([]event, len(evs))
			for i, e := range evs {
				switch e.kind {
				case evStr:
					e = event{kind: evStrRef, s: e.sc.s}
				case evKey:
					e.kind = evKeyRef
				}
				out[i] = e
			}
			return eventsTok(out)
		}
		if (err1 == nil) != (err2 == nil) || norm(rec.evs) != norm(fresh.evs) {
			res = "L diff parser probe"
			return
		}
		// encoder
		var w bytes.Buffer
		vs, _ := f.newVisitor(&w, 0)
		ev := structform.EnsureExtVisitor(vs)
		for i := 0; i < n; i++ {
			w.Reset()
			if idx, _ := play(ev, streams[i%len(streams)]); idx >= 0 {
				res = fmt.Sprintf("L diff encoder refused document %d of the history", i)
				return
			}
		}
		w.Reset()
		ps := streams[int(seed)%len(streams)]
		i1, _ := play(ev, ps)
		var w2 bytes.Buffer
		vs2, _ := f.newVisitor(&w2, 0)
		i2, _ := play(structform.EnsureExtVisitor(vs2), ps)
		if i1 != i2 || !bytes.Equal(w.Bytes(), w2.Bytes()) {
			res = "L diff encoder probe " + hexTok(w.Bytes()) + " " + hexTok(w2.Bytes())
			return
		}
		if f.name != "json" {
			return
		}
		// Iterator and Unfolder (through JSON)
		type inner struct {
			P *int
			L []interface{}
			M map[string]int
		}
		type outer struct {
			A  int
			In *inner
			Z  []*int
			S  map[string]interface{}
		}
		one := 1
		vals := []interface{}{
			outer{A: 1, In: &inner{P: nil, L: []interface{}{nil, 1, "x"}, M: map[string]int{"k": 1}}, Z: []*int{nil, &one, nil}},
			outer{A: 2, S: map[string]interface{}{"n": nil}},
			[]interface{}{map[string]interface{}{"a": []int{1, 2}}, nil, (*int)(nil)},
			map[string]*inner{"x": nil},
		}
		var jb bytes.Buffer
		it, err := gotype.NewIterator(sfjson.NewVisitor(&jb))
		if err != nil {
			res = "L diff iterator setup"
			return
		}
		for i := 0; i < n; i++ {
			jb.Reset()
			if err := it.Fold(vals[i%len(vals)]); err != nil {
				res = fmt.Sprintf("L diff iterator refused value %d of the history", i)
				return
			}
		}
		jb.Reset()
		pv := vals[int(seed)%len(vals)]
		e1 := it.Fold(pv)
		var jb2 bytes.Buffer
		e2 := gotype.Fold(pv, sfjson.NewVisitor(&jb2))
		if (e1 == nil) != (e2 == nil) || jb.String() != jb2.String() {
			res = "L diff iterator probe " + asciiTok(jb.String()) + " " + asciiTok(jb2.String())
			return
		}
		text := []byte(`{"a":5,"in":{"p":7,"l":[1,[2,{"q":null}],"s"],"m":{"k":2,"extra":3}},"z":[null,4],"s":{"o":{"p":[true]}},"unknown":{"deep":[1,{"x":[]}]}}`)
		var first outer
		u, err := gotype.NewUnfolder(&first)
		if err != nil {
			res = "L diff unfolder setup"
			return
		}
		for i := 0; i < n; i++ {
			var t outer
			if err := u.SetTarget(&t); err != nil {
				res = "L diff unfolder SetTarget"
				return
			}
			if err := sfjson.Parse(text, u); err != nil {
				res = fmt.Sprintf("L diff unfolder refused document %d of the history", i)
				return
			}
		}
		var t1, t2 outer
		u.SetTarget(&t1)
		e1 = sfjson.Parse(text, u)
		u2, _ := gotype.NewUnfolder(&t2)
		e2 = sfjson.Parse(text, u2)
		if (e1 == nil) != (e2 == nil) || !reflect.DeepEqual(t1, t2) {
			res = "L diff unfolder probe"
		}
	})
	if o.panicked || o.hung {
		return verdictTok(o, nil)
	}
	return res
}

func (f *format) longHistCase(r *rng) string {
	n := []int{10001, 12000, 16385, 20000}[r.n(4)]
	seed := r.u64() % 1000003
	return fmt.Sprintf("longhist%s\t%d %d\t%s", f.name, n, seed, f.longHistRun(n, seed))
}

func (f *format) longHistReplay(input string) string {
	fl := strings.Fields(input)
	var seed uint64
	fmt.Sscan(fl[1], &seed)
	return f.longHistRun(atoi(fl[0]), seed)
}

func init() {
	for _, n := range []string{"json", "ubj", "cbor"} {
		n := n
		kinds["longhist"+n] = kindT{func(r *rng) string { return formats[n].longHistCase(r) }, func(s string) string { return formats[n].longHistReplay(s) }}
	}
}
