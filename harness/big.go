package main

import (
	"crypto/sha256"
	"fmt"
	"strings"

	structform "github.com/elastic/go-structform"
	"github.com/elastic/go-structform/gotype"
)

// =================== C10 / C01: typed arrays at and beyond the 16-bit length forms ===================
// big<fmt> \t <cfg> <bt> <n> <ctx> \t A <len> <depth> <err> <sha of what follows the first document> rtok|rtdiff|rterr B <the same>
//
// One typed array of n (around 2^16) small elements goes through the encoder once as the
// extended event (A) and once as its start/element/finish expansion (B), alone (ctx 0), inside an
// array that goes on afterwards (ctx 1: [x, 7] then a second document), or as an object member
// (ctx 2), followed by a second document.  For both, the first document is parsed back by the format's
// parser into an interface{} target and compared with the expansion unfolded directly; what follows the
// first document must be the same bytes in A and B, and the encoder must be left at the same depth.
// The extracted encoder models append to the end of a list and are quadratic in the output, so
// these sizes are kept out of the model-backed kinds: this kind is a direct oracle, no Coq model.
var bigCounts = []int{255, 256, 32767, 32768, 65535, 65536, 65537, 66000, 131072}

func bigEvents(bt structform.BaseType, n, ctx int, ext bool) (doc1, rest []event) {
	x := event{kind: evXArr, bt: bt}
	for i := 0; i < n; i++ {
		x.elems = append(x.elems, hugeElem(bt, i))
	}
	mid := []event{x}
	if !ext {
		mid = expandEvent(x)
	}
	seven := event{kind: evNum, sc: scI(kInt64, 7)}
	switch ctx {
	case 0:
		doc1 = mid
	case 1:
		doc1 = append(append([]event{{kind: evArrStart, n: 2, bt: structform.AnyType}}, mid...), seven, event{kind: evArrEnd})
	default:
		doc1 = append(append([]event{{kind: evObjStart, n: -1, bt: structform.AnyType}, {kind: evKey, s: []byte("k")}}, mid...),
			event{kind: evKey, s: []byte("after")}, seven, event{kind: evObjEnd})
	}
	rest = []event{{kind: evArrStart, n: 1, bt: structform.AnyType}, seven, {kind: evArrEnd}}
	return doc1, rest
}

func (f *format) bigRun(cfg, bti, n, ctx int) string {
	bt := xarrTypes[bti%len(xarrTypes)]
	// the expected value: the expansion unfolded directly
	var want interface{}
	wantTok := ""
	if o := guard(4*guardTime, func() {
		u, err := gotype.NewUnfolder(&want)
		if err != nil {
			return
		}
		doc1, _ := bigEvents(bt, n, ctx, false)
		if idx, _ := play(structform.EnsureExtVisitor(u), doc1); idx >= 0 {
			return
		}
		wantTok = fmt.Sprint(want)
	}); o.panicked || o.hung || wantTok == "" {
		return "SETUP-FAILED"
	}
	one := func(ext bool) string {
		w := &recWriter{failAt: -1}
		idx, depth, cut := -1, 0, 0
		doc1, rest := bigEvents(bt, n, ctx, ext)
		o := guard(4*guardTime, func() {
			vs, dep := f.newVisitor(w, cfg)
			ev := structform.EnsureExtVisitor(vs)
			if idx, _ = play(ev, doc1); idx >= 0 {
				return
			}
			cut = len(w.bytes())
			if i, _ := play(ev, rest); i >= 0 {
				idx = len(doc1) + i
			}
			depth = dep()
		})
		if o.panicked || o.hung {
			return verdictTok(o, nil) + " 0 - - -"
		}
		e := "-"
		if idx >= 0 {
			e = "err"
		}
		all := w.bytes()
		rt := "rterr"
		o = guard(4*guardTime, func() {
			var v interface{}
			u, err := gotype.NewUnfolder(&v)
			if err != nil {
				return
			}
			if err := f.newParser(u).Parse(all[:cut]); err != nil {
				return
			}
			if fmt.Sprint(v) == wantTok {
				rt = "rtok"
			} else {
				rt = "rtdiff"
			}
		})
		if o.panicked || o.hung {
			rt = "rt" + verdictTok(o, nil)
		}
		return fmt.Sprintf("%d %d %s %x %s", len(all), depth, e, sha256.Sum256(all[cut:]), rt)
	}
	return "A " + one(true) + " B " + one(false)
}

func (f *format) bigCase(r *rng) string {
	// element type x count swept systematically (any 135 consecutive cases cover all pairs)
	cfg, bti, n, ctx := r.n(f.cfgs), int(genOrdinal%uint64(len(xarrTypes))), bigCounts[int(genOrdinal/uint64(len(xarrTypes)))%len(bigCounts)], r.n(3)
	return fmt.Sprintf("big%s\t%d %d %d %d\t%s", f.name, cfg, bti, n, ctx, f.bigRun(cfg, bti, n, ctx))
}

func (f *format) bigReplay(input string) string {
	fl := strings.Fields(input)
	return f.bigRun(atoi(fl[0]), atoi(fl[1]), atoi(fl[2]), atoi(fl[3]))
}

func init() {
	for _, n := range []string{"json", "ubj", "cbor"} {
		n := n
		kinds["big"+n] = kindT{func(r *rng) string { return formats[n].bigCase(r) }, func(s string) string { return formats[n].bigReplay(s) }}
	}
}
