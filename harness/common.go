package main

import (
	"fmt"
	"io"
	"os"
	"strconv"
	"strings"
	"time"

	structform "github.com/elastic/go-structform"
)

// ---- failing, recording writer ----
type recWriter struct {
	chunks [][]byte
	failAt int // -1 never; the failAt-th Write (0-based) and all later ones fail
}

// touchCap reads the last byte within the capacity of a slice the library handed out.  That is a
// legal read for any Go slice; a slice header forged with a wrong capacity (an unsafe conversion
// that reads a string header as a slice header, say) makes it fault.
var capSink byte

func touchCap(b []byte) {
	if cap(b) > len(b) {
		capSink ^= b[:cap(b)][cap(b)-1]
	}
}

func (w *recWriter) Write(b []byte) (int, error) {
	touchCap(b)
	w.chunks = append(w.chunks, append([]byte(nil), b...))
	if w.failAt >= 0 && len(w.chunks)-1 >= w.failAt {
		return 0, errInjected
	}
	return len(b), nil
}

func (w *recWriter) bytes() []byte {
	var out []byte
	for _, c := range w.chunks {
		out = append(out, c...)
	}
	return out
}

func chunksTok(chunks [][]byte) string {
	if len(chunks) == 0 {
		return "."
	}
	parts := make([]string, len(chunks))
	for i, c := range chunks {
		parts[i] = hx(c)
	}
	return strings.Join(parts, " ")
}

func parseChunks(toks []string) [][]byte {
	var cs [][]byte
	for _, t := range toks {
		if t == "." {
			continue
		}
		cs = append(cs, unhx(t))
	}
	return cs
}

// ---- scripted reader: one script entry per Read ----
type readStep struct {
	data []byte
	eof  bool // return io.EOF together with the data
}

type scriptReader struct {
	steps []readStep
	i     int
}

func (s *scriptReader) Read(p []byte) (int, error) {
	if s.i >= len(s.steps) {
		return 0, io.EOF
	}
	st := s.steps[s.i]
	s.i++
	n := copy(p, st.data)
	if n < len(st.data) {
		// caller's buffer is smaller than scripted: keep the rest for the next read
		rest := readStep{data: st.data[n:], eof: st.eof}
		s.steps = append(s.steps[:s.i], append([]readStep{rest}, s.steps[s.i:]...)...)
		return n, nil
	}
	if st.eof {
		return n, io.EOF
	}
	return n, nil
}

// ---- chunkings ----
// cut splits doc at the positions where mask has a bit set (bit i => cut before byte i+1).
func (r *rng) chunking(doc []byte) [][]byte {
	n := len(doc)
	var cs [][]byte
	mode := r.n(6)
	switch {
	case n == 0:
		return [][]byte{}
	case mode == 0:
		return [][]byte{doc[:n:n]}
	case mode == 1:
		for i := 0; i < n; i++ {
			cs = append(cs, doc[i:i+1:i+1])
		}
		return cs
	case mode == 2:
		// single cut
		c := r.n(n + 1)
		return [][]byte{doc[:c:c], doc[c:n:n]}
	default:
		p := 1 + r.n(4)
		start := 0
		for i := 1; i < n; i++ {
			if r.n(p+1) == 0 {
				cs = append(cs, doc[start:i:i])
				start = i
				if r.chance(1, 10) {
					cs = append(cs, doc[i:i:i]) // empty write
				}
			}
		}
		cs = append(cs, doc[start:n:n])
		return cs
	}
}

func verdictTok(o outcome, err error) string {
	switch {
	case o.panicked:
		return "PANIC"
	case o.hung:
		return "HANG"
	case err == nil:
		return "ok"
	case err == errInjected:
		return "inj"
	case err == io.EOF:
		return "eof"
	}
	return "err"
}

func atoi(s string) int {
	n, _ := strconv.Atoi(s)
	return n
}

// deadline of a guarded call; instrumented builds (-race) and loaded machines scale it
var guardTime = 8 * time.Second

func init() {
	if v, err := strconv.Atoi(os.Getenv("VERIF_GUARD_SCALE")); err == nil && v > 1 {
		guardTime *= time.Duration(v)
	}
}

var _ = fmt.Sprint
var _ structform.Visitor = (*recorder)(nil)
