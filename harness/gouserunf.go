package main

import (
	"fmt"
	"reflect"
	"strconv"
	"strings"

	structform "github.com/elastic/go-structform"
	"github.com/elastic/go-structform/gotype"
)

// =================== C13 / C15: user unfolders (gotype.Unfolders, UnfoldState) ===================
// userunf \t <case> <seed> \t U ok | U diff got=<..> want=<..> | U err | PANIC | HANG
//
// Hand-written targets that use a primitive user unfolder func(*T, string) error and a
// stateful one (UnfoldState) in every placement - top level, struct field, pointer field,
// slice / map element, slice / map of pointers - fed by Fold of plain Go data; the
// expectation is written down by hand.  No Coq model: user extension points are outside it.
type uuT struct{ A, B, C int64 }

func uuTfn(to *uuT, s string) error {
	to.A, to.B, to.C = int64(len(s)), 0x4141414141414141, 0x4242424242424242
	return nil
}

type uuI struct{ V int64 }

type uuState struct {
	gotype.BaseUnfoldState
	to *int64
}

func (s *uuState) OnInt(c gotype.UnfoldCtx, i int64) error { *s.to = i; c.Done(); return nil }
func (s *uuState) OnUint(c gotype.UnfoldCtx, u uint64) error {
	*s.to = int64(u) + 1000000
	c.Done()
	return nil
}

// uuS keeps the string it is handed
type uuS struct{ S string }

// uuKV is filled by a stateful unfolder that handles an object and keeps its keys
type uuKV struct {
	Keys []string
	Vals []int64
}

type uuKVState struct {
	gotype.BaseUnfoldState
	to *uuKV
}

func (s *uuKVState) OnObjectStart(c gotype.UnfoldCtx, l int, bt structform.BaseType) error {
	return nil
}
func (s *uuKVState) OnKey(c gotype.UnfoldCtx, k string) error {
	s.to.Keys = append(s.to.Keys, k)
	return nil
}
func (s *uuKVState) OnInt(c gotype.UnfoldCtx, i int64) error {
	s.to.Vals = append(s.to.Vals, i)
	return nil
}
func (s *uuKVState) OnUint(c gotype.UnfoldCtx, u uint64) error {
	s.to.Vals = append(s.to.Vals, int64(u))
	return nil
}
func (s *uuKVState) OnObjectFinished(c gotype.UnfoldCtx) error { c.Done(); return nil }

// uuP is unfolded through a PROCESSING unfolder whose temporary cell has the target's own type
type uuP struct {
	Name  string
	Quota int
}

// uuOuter is processed too, and its cell contains a uuP
type uuOuter struct {
	Tag string
	In  uuP
}

// uuTree is processed, and its cell contains further uuTree values (nested use of one processing unfolder)
type uuTree struct {
	Name string
	Kids []uuTree
}

type uuTreeCell struct {
	Name string
	Kids []uuTree
}

var uuOptTree = gotype.Unfolders(func(to *uuTree) (interface{}, func(*uuTree, interface{}) error) {
	cell := &uuTreeCell{}
	return cell, func(to *uuTree, c interface{}) error {
		x := c.(*uuTreeCell)
		to.Name, to.Kids = "("+x.Name+")", x.Kids
		return nil
	}
})

// uuExp implements gotype.Expander: its state logs every callback and finishes when the value it
// was started for is complete
type uuExp struct{ Log []string }

func (e *uuExp) Expand() gotype.UnfoldState { return &uuExpState{to: e} }

type uuExpState struct {
	to    *uuExp
	depth int
}

func (s *uuExpState) prim(c gotype.UnfoldCtx, t string) error {
	s.to.Log = append(s.to.Log, t)
	if s.depth == 0 {
		c.Done()
	}
	return nil
}
func (s *uuExpState) OnNil(c gotype.UnfoldCtx) error { return s.prim(c, "nil") }
func (s *uuExpState) OnBool(c gotype.UnfoldCtx, b bool) error {
	return s.prim(c, fmt.Sprint("bool:", b))
}
func (s *uuExpState) OnString(c gotype.UnfoldCtx, v string) error { return s.prim(c, "str:"+v) }
func (s *uuExpState) OnInt(c gotype.UnfoldCtx, i int64) error {
	return s.prim(c, fmt.Sprint("int:", i))
}
func (s *uuExpState) OnUint(c gotype.UnfoldCtx, u uint64) error {
	return s.prim(c, fmt.Sprint("uint:", u))
}
func (s *uuExpState) OnFloat(c gotype.UnfoldCtx, f float64) error {
	return s.prim(c, fmt.Sprint("float:", f))
}
func (s *uuExpState) OnArrayStart(c gotype.UnfoldCtx, l int, bt structform.BaseType) error {
	s.to.Log = append(s.to.Log, "[")
	s.depth++
	return nil
}
func (s *uuExpState) OnArrayFinished(c gotype.UnfoldCtx) error {
	s.depth--
	return s.prim(c, "]")
}
func (s *uuExpState) OnObjectStart(c gotype.UnfoldCtx, l int, bt structform.BaseType) error {
	s.to.Log = append(s.to.Log, "{")
	s.depth++
	return nil
}
func (s *uuExpState) OnKey(c gotype.UnfoldCtx, k string) error {
	s.to.Log = append(s.to.Log, "key:"+k)
	return nil
}
func (s *uuExpState) OnObjectFinished(c gotype.UnfoldCtx) error {
	s.depth--
	return s.prim(c, "}")
}

// uuSeq is filled by a state machine that uses Cont (header state replaced by the element state)
// and Push (a sub-state that consumes one nested object and reports how many members it had)
type uuSeq struct {
	Items   []int64
	Skipped []int
	Tail    string
}

type uuSeqHead struct {
	gotype.BaseUnfoldState
	to *uuSeq
}

func (s *uuSeqHead) OnArrayStart(c gotype.UnfoldCtx, l int, bt structform.BaseType) error {
	c.Cont(&uuSeqElems{to: s.to})
	return nil
}

type uuSeqElems struct {
	gotype.BaseUnfoldState
	to *uuSeq
}

func (s *uuSeqElems) OnInt(c gotype.UnfoldCtx, i int64) error {
	s.to.Items = append(s.to.Items, i)
	return nil
}
func (s *uuSeqElems) OnUint(c gotype.UnfoldCtx, u uint64) error {
	s.to.Items = append(s.to.Items, int64(u))
	return nil
}
func (s *uuSeqElems) OnString(c gotype.UnfoldCtx, v string) error { s.to.Tail += v; return nil }
func (s *uuSeqElems) OnObjectStart(c gotype.UnfoldCtx, l int, bt structform.BaseType) error {
	c.Push(&uuSeqSkip{to: s.to, depth: 1})
	return nil
}
func (s *uuSeqElems) OnArrayFinished(c gotype.UnfoldCtx) error { c.Done(); return nil }

type uuSeqSkip struct {
	to       *uuSeq
	depth, n int
}

func (s *uuSeqSkip) val(c gotype.UnfoldCtx) error                { return nil }
func (s *uuSeqSkip) OnNil(c gotype.UnfoldCtx) error              { return nil }
func (s *uuSeqSkip) OnBool(c gotype.UnfoldCtx, b bool) error     { return nil }
func (s *uuSeqSkip) OnString(c gotype.UnfoldCtx, v string) error { return nil }
func (s *uuSeqSkip) OnInt(c gotype.UnfoldCtx, i int64) error     { return nil }
func (s *uuSeqSkip) OnUint(c gotype.UnfoldCtx, u uint64) error   { return nil }
func (s *uuSeqSkip) OnFloat(c gotype.UnfoldCtx, f float64) error { return nil }
func (s *uuSeqSkip) OnArrayStart(c gotype.UnfoldCtx, l int, bt structform.BaseType) error {
	s.depth++
	return nil
}
func (s *uuSeqSkip) OnArrayFinished(c gotype.UnfoldCtx) error { s.depth--; return nil }
func (s *uuSeqSkip) OnObjectStart(c gotype.UnfoldCtx, l int, bt structform.BaseType) error {
	s.depth++
	return nil
}
func (s *uuSeqSkip) OnKey(c gotype.UnfoldCtx, k string) error {
	if s.depth == 1 {
		s.n++
	}
	return nil
}
func (s *uuSeqSkip) OnObjectFinished(c gotype.UnfoldCtx) error {
	s.depth--
	if s.depth == 0 {
		s.to.Skipped = append(s.to.Skipped, s.n)
		c.Done()
	}
	return nil
}

var uuOptSeq = gotype.Unfolders(func(x *uuSeq) gotype.UnfoldState { return &uuSeqHead{to: x} })

var (
	uuOptS  = gotype.Unfolders(func(to *uuS, s string) error { to.S = s; return nil })
	uuOptKV = gotype.Unfolders(func(x *uuKV) gotype.UnfoldState { return &uuKVState{to: x} })
	uuOptP  = gotype.Unfolders(func(to *uuP) (interface{}, func(*uuP, interface{}) error) {
		cell := &uuP{}
		return cell, func(to *uuP, c interface{}) error {
			x := c.(*uuP)
			to.Name, to.Quota = strings.ToUpper(x.Name), x.Quota*1024
			return nil
		}
	})
	uuOptO = gotype.Unfolders(func(to *uuOuter) (interface{}, func(*uuOuter, interface{}) error) {
		cell := &struct {
			Tag string
			In  uuP
		}{}
		return cell, func(to *uuOuter, c interface{}) error {
			x := c.(*struct {
				Tag string
				In  uuP
			})
			to.Tag, to.In = "<"+x.Tag+">", x.In
			return nil
		}
	})
	uuOptT = gotype.Unfolders(uuTfn)
	uuOptI = gotype.Unfolders(func(x *uuI) gotype.UnfoldState { return &uuState{to: &x.V} })
)

func uuWant(s string) uuT { return uuT{int64(len(s)), 0x4141414141414141, 0x4242424242424242} }

func userunfRun(c int, seed uint64) string {
	r := newRng(seed)
	strs := []string{"", "a", "bb", "ccc", "dddddddd"}
	s1, s2 := strs[r.n(len(strs))], strs[r.n(len(strs))]
	n1, n2 := int(gIntPool[r.n(12)]), -int(gIntPool[r.n(12)])
	var res string
	o := guard(guardTime, func() {
		var target, want, doc interface{}
		switch c {
		case 0:
			target, want, doc = new(uuT), uuWant(s1), s1
		case 1:
			target, want, doc = new(struct {
				X uuT
				N int
			}), struct {
				X uuT
				N int
			}{uuWant(s1), 3}, map[string]interface{}{"x": s1, "n": 3}
		case 2:
			target, doc = new([]uuT), []string{s1, s2}
			want = []uuT{uuWant(s1), uuWant(s2)}
		case 3:
			target, doc = new([]*uuT), []string{s1, s2}
			a, b := uuWant(s1), uuWant(s2)
			want = []*uuT{&a, &b}
		case 4:
			target, doc = new(map[string]uuT), map[string]string{"k": s1}
			want = map[string]uuT{"k": uuWant(s1)}
		case 5:
			target, doc = new(map[string]*uuT), map[string]string{"k": s1}
			a := uuWant(s1)
			want = map[string]*uuT{"k": &a}
		case 6:
			target, doc = new(struct{ P *uuT }), map[string]interface{}{"p": s1}
			a := uuWant(s1)
			want = struct{ P *uuT }{&a}
		case 7:
			// a stateful unfolder receives Go ints as ints
			target, doc = new([]uuI), []int{n1, n2}
			want = []uuI{{int64(n1)}, {int64(n2)}}
		case 8:
			target, doc = new(map[string]uuI), map[string]int{"k": n2}
			want = map[string]uuI{"k": {int64(n2)}}
		case 9:
			target, doc = new(struct{ I uuI }), map[string]interface{}{"i": int64(n2)}
			want = struct{ I uuI }{uuI{int64(n2)}}
		case 10:
			target, doc = new([]*uuI), []int{n2}
			want = []*uuI{{int64(n2)}}
		case 11:
			// exported fields whose first letter is upper case but not A-Z
			target, doc = new(struct {
				Ärger int
				Über  string
			}), map[string]interface{}{"ärger": n1, "über": s1}
			want = struct {
				Ärger int
				Über  string
			}{n1, s1}
		case 18:
			// a type implementing Expander, in every placement; its state sees every kind of event
			type holder struct {
				E uuExp
				P *uuExp
				L []uuExp
				M map[string]uuExp
				N int
			}
			val := []interface{}{nil, true, s1, int8(-3), uint16(7), float32(2.5), map[string]interface{}{"k": n1}, []int{}}
			log := []string{"[", "nil", "bool:true", "str:" + s1, "int:-3", "uint:7", "float:2.5", "{", "key:k", fmt.Sprint("int:", n1), "}", "[", "]", "]"}
			target = new(holder)
			doc = map[string]interface{}{"e": val, "p": "x" + s2, "l": []interface{}{val, n2, map[string]interface{}{}}, "m": map[string]interface{}{"a": val}, "n": 5}
			want = holder{E: uuExp{log}, P: &uuExp{[]string{"str:x" + s2}}, L: []uuExp{{log}, {[]string{fmt.Sprint("int:", n2)}}, {[]string{"{", "}"}}}, M: map[string]uuExp{"a": {log}}, N: 5}
		case 19:
			// a state machine that replaces itself (Cont) and delegates nested objects to a sub-state (Push)
			target = new(struct {
				A uuSeq
				B []uuSeq
				Z string
			})
			seq := []interface{}{n1, map[string]interface{}{"x": 1, "y": []interface{}{map[string]interface{}{"deep": 1}}, "z": nil}, uint8(9), "t" + s1, map[string]interface{}{}, n2}
			ws := uuSeq{Items: []int64{int64(n1), 9, int64(n2)}, Skipped: []int{3, 0}, Tail: "t" + s1}
			if hasMultiMap(reflect.ValueOf(seq)) {
				// (member order of the skipped object does not matter: only counted)
			}
			doc = map[string]interface{}{"a": seq, "b": []interface{}{seq, []interface{}{}}, "z": "end"}
			want = struct {
				A uuSeq
				B []uuSeq
				Z string
			}{ws, []uuSeq{ws, {}}, "end"}
		case 12, 13, 14, 15, 16, 17:
			// handled below: event streams delivered by reference, processing unfolders, histories
		}
		if seed%2 == 0 && target != nil {
			// an Unfolder WITHOUT options sees the target's type first (its result does not matter):
			// whatever that leaves behind in the process must not reach the Unfolder with the user unfolders
			func() {
				defer func() { recover() }()
				plain := reflect.New(reflect.TypeOf(target).Elem())
				if pu, err := gotype.NewUnfolder(plain.Interface()); err == nil && doc != nil {
					gotype.Fold(doc, pu)
				}
			}()
		}
		u, err := gotype.NewUnfolder(nil, uuOptT, uuOptI, uuOptS, uuOptKV, uuOptP, uuOptO, uuOptTree, uuOptSeq)
		if err != nil {
			res = "U setuperr"
			return
		}
		refs := func(evs ...event) error {
			_, err := play(structform.EnsureExtVisitor(u), evs)
			return err
		}
		kref := func(k string) event { return event{kind: evKeyRef, s: []byte(k)} }
		sref := func(s string) event { return event{kind: evStrRef, s: []byte(s)} }
		num := func(i int64) event { return event{kind: evNum, sc: scI(kInt64, i)} }
		ob, oe := event{kind: evObjStart, n: -1}, event{kind: evObjEnd}
		switch c {
		case 12:
			// strings delivered by reference (the buffer is overwritten after each call) to a user
			// function that keeps them
			t := new(struct{ A, B uuS })
			target, want = t, struct{ A, B uuS }{uuS{"first " + s1}, uuS{"other " + s2}}
			if err := u.SetTarget(t); err != nil {
				res = "U setuperr"
				return
			}
			if err := refs(ob, kref("a"), sref("first "+s1), kref("b"), sref("other "+s2), oe); err != nil {
				res = "U err"
				return
			}
			doc = nil
		case 13:
			// keys delivered by reference to a stateful unfolder that keeps them
			t := new(struct{ X, Y uuKV })
			target = t
			want = struct{ X, Y uuKV }{uuKV{[]string{"alpha", "beta"}, []int64{1, 2}}, uuKV{[]string{"gamma"}, []int64{3}}}
			if err := u.SetTarget(t); err != nil {
				res = "U setuperr"
				return
			}
			if err := refs(ob, kref("x"), ob, kref("alpha"), num(1), kref("beta"), num(2), oe, kref("y"), ob, kref("gamma"), num(3), oe, oe); err != nil {
				res = "U err"
				return
			}
			doc = nil
		case 14:
			// a processing unfolder, several values through one Unfolder
			t := new([]uuP)
			target, want = t, []uuP{{"AB", 2048}, {"CD", 3072}, {strings.ToUpper(s1), 1024}}
			if err := u.SetTarget(t); err != nil {
				res = "U setuperr"
				return
			}
			doc = []map[string]interface{}{{"name": "ab", "quota": 2}, {"name": "cd", "quota": 3}, {"name": s1, "quota": 1}}
			if err := gotype.Fold(doc, u); err != nil {
				res = "U err"
				return
			}
			doc = nil
		case 15:
			// the same Unfolder used for the same processed type again (and as a pointer field)
			for i := 0; i < 3; i++ {
				t := new(uuP)
				if err := u.SetTarget(t); err != nil {
					res = "U setuperr"
					return
				}
				if err := gotype.Fold(map[string]interface{}{"name": "probe", "quota": 7}, u); err != nil {
					res = "U err"
					return
				}
				target, want = t, uuP{"PROBE", 7168}
				if *t != (uuP{"PROBE", 7168}) {
					break
				}
			}
			if reflect.DeepEqual(reflect.ValueOf(target).Elem().Interface(), want) {
				t := new(struct{ P *uuP })
				if err := u.SetTarget(t); err != nil {
					res = "U setuperr"
					return
				}
				if err := gotype.Fold(map[string]interface{}{"p": map[string]interface{}{"name": "q", "quota": 1}}, u); err != nil {
					res = "U err"
					return
				}
				target, want = t, struct{ P *uuP }{&uuP{"Q", 1024}}
			}
			doc = nil
		case 16:
			// nested processing unfolders, twice through one Unfolder
			t := new([]uuOuter)
			target, want = t, []uuOuter{{"<a>", uuP{"X", 1024}}, {"<b>", uuP{"Y", 2048}}}
			if err := u.SetTarget(t); err != nil {
				res = "U setuperr"
				return
			}
			doc = []map[string]interface{}{{"tag": "a", "in": map[string]interface{}{"name": "x", "quota": 1}}, {"tag": "b", "in": map[string]interface{}{"name": "y", "quota": 2}}}
			if err := gotype.Fold(doc, u); err != nil {
				res = "U err"
				return
			}
			doc = nil
		case 17:
			// a processing unfolder whose cell holds values of the processed type again
			t := new(uuTree)
			leaf := func(n string) map[string]interface{} { return map[string]interface{}{"name": n} }
			target = t
			want = uuTree{"(root)", []uuTree{
				{"(a)", []uuTree{{"(a1)", nil}, {"(" + s1 + ")", nil}}},
				{"(b)", nil},
				{"(c)", []uuTree{{"(c1)", []uuTree{{"(" + s2 + ")", nil}}}}}}}
			if err := u.SetTarget(t); err != nil {
				res = "U setuperr"
				return
			}
			doc = map[string]interface{}{"name": "root", "kids": []interface{}{
				map[string]interface{}{"name": "a", "kids": []interface{}{leaf("a1"), leaf(s1)}},
				leaf("b"),
				map[string]interface{}{"name": "c", "kids": []interface{}{map[string]interface{}{"name": "c1", "kids": []interface{}{leaf(s2)}}}}}}
			if err := gotype.Fold(doc, u); err != nil {
				res = "U err"
				return
			}
			doc = nil
		default:
			if err := u.SetTarget(target); err != nil {
				res = "U setuperr"
				return
			}
			if err := gotype.Fold(doc, u); err != nil {
				res = "U err"
				return
			}
		}
		got := reflect.ValueOf(target).Elem().Interface()
		if !reflect.DeepEqual(got, want) {
			res = fmt.Sprintf("U diff got=%s want=%s", asciiTok(fmt.Sprintf("%+v", derefAll(got))), asciiTok(fmt.Sprintf("%+v", derefAll(want))))
			return
		}
		res = "U ok"
	})
	if o.panicked || o.hung {
		return verdictTok(o, nil)
	}
	return res
}

// asciiTok renders arbitrary text as one printable ASCII token (no blanks, tabs, newlines, raw bytes)
func asciiTok(s string) string {
	q := strconv.QuoteToASCII(s)
	return strings.ReplaceAll(q[1:len(q)-1], " ", "_")
}

// derefAll prints pointers by their pointee where that is safe (only for the diff message)
func derefAll(v interface{}) interface{} {
	defer func() { recover() }()
	rv := reflect.ValueOf(v)
	switch rv.Kind() {
	case reflect.Slice:
		out := make([]interface{}, rv.Len())
		for i := range out {
			e := rv.Index(i)
			if e.Kind() == reflect.Ptr {
				out[i] = fmt.Sprintf("ptr:%#x", e.Pointer())
			} else {
				out[i] = e.Interface()
			}
		}
		return out
	}
	return v
}

const nUserunfCases = 20

func userunfCase(r *rng) string {
	c := r.n(nUserunfCases)
	seed := r.u64() % 1000003
	return fmt.Sprintf("userunf\t%d %d\t%s", c, seed, userunfRun(c, seed))
}

func userunfReplay(input string) string {
	f := strings.Fields(input)
	var seed uint64
	fmt.Sscan(f[1], &seed)
	return userunfRun(atoi(f[0]), seed)
}

var _ = structform.AnyType

func init() {
	kinds["userunf"] = kindT{userunfCase, userunfReplay}
}
