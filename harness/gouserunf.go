package main

import (
	"fmt"
	"reflect"
	"strings"

	structform "github.com/elastic/go-structform"
	"github.com/elastic/go-structform/gotype"
)

// =================== C13 / C15: user unfolders (gotype.Unfolders, UnfoldState) ===================
// userunf \t <case> <seed> \t U ok | U diff got=<..> want=<..> | U err | PANIC | HANG
//
// Hand-written targets that use a primitive user unfolder func(*T, string) error and a
// stateful one (UnfoldState) in every placement - top level, struct field, pointer field,
// slice / map element, slice / map of pointers - fed by Fold of plain Go data; the
// expectation is written down by hand.  No Coq model: user extension points are outside it.
type uuT struct{ A, B, C int64 }

func uuTfn(to *uuT, s string) error {
	to.A, to.B, to.C = int64(len(s)), 0x4141414141414141, 0x4242424242424242
	return nil
}

type uuI struct{ V int64 }

type uuState struct {
	gotype.BaseUnfoldState
	to *int64
}

func (s *uuState) OnInt(c gotype.UnfoldCtx, i int64) error   { *s.to = i; c.Done(); return nil }
func (s *uuState) OnUint(c gotype.UnfoldCtx, u uint64) error { *s.to = int64(u) + 1000000; c.Done(); return nil }

var (
	uuOptT = gotype.Unfolders(uuTfn)
	uuOptI = gotype.Unfolders(func(x *uuI) gotype.UnfoldState { return &uuState{to: &x.V} })
)

func uuWant(s string) uuT { return uuT{int64(len(s)), 0x4141414141414141, 0x4242424242424242} }

func userunfRun(c int, seed uint64) string {
	r := newRng(seed)
	strs := []string{"", "a", "bb", "ccc", "dddddddd"}
	s1, s2 := strs[r.n(len(strs))], strs[r.n(len(strs))]
	n1, n2 := int(gIntPool[r.n(12)]), -int(gIntPool[r.n(12)])
	var res string
	o := guard(guardTime, func() {
		var target, want, doc interface{}
		switch c {
		case 0:
			target, want, doc = new(uuT), uuWant(s1), s1
		case 1:
			target, want, doc = new(struct {
				X uuT
				N int
			}), struct {
				X uuT
				N int
			}{uuWant(s1), 3}, map[string]interface{}{"x": s1, "n": 3}
		case 2:
			target, doc = new([]uuT), []string{s1, s2}
			want = []uuT{uuWant(s1), uuWant(s2)}
		case 3:
			target, doc = new([]*uuT), []string{s1, s2}
			a, b := uuWant(s1), uuWant(s2)
			want = []*uuT{&a, &b}
		case 4:
			target, doc = new(map[string]uuT), map[string]string{"k": s1}
			want = map[string]uuT{"k": uuWant(s1)}
		case 5:
			target, doc = new(map[string]*uuT), map[string]string{"k": s1}
			a := uuWant(s1)
			want = map[string]*uuT{"k": &a}
		case 6:
			target, doc = new(struct{ P *uuT }), map[string]interface{}{"p": s1}
			a := uuWant(s1)
			want = struct{ P *uuT }{&a}
		case 7:
			// a stateful unfolder receives Go ints as ints
			target, doc = new([]uuI), []int{n1, n2}
			want = []uuI{{int64(n1)}, {int64(n2)}}
		case 8:
			target, doc = new(map[string]uuI), map[string]int{"k": n2}
			want = map[string]uuI{"k": {int64(n2)}}
		case 9:
			target, doc = new(struct{ I uuI }), map[string]interface{}{"i": int64(n2)}
			want = struct{ I uuI }{uuI{int64(n2)}}
		case 10:
			target, doc = new([]*uuI), []int{n2}
			want = []*uuI{{int64(n2)}}
		}
		u, err := gotype.NewUnfolder(target, uuOptT, uuOptI)
		if err != nil {
			res = "U setuperr"
			return
		}
		if err := gotype.Fold(doc, u); err != nil {
			res = "U err"
			return
		}
		got := reflect.ValueOf(target).Elem().Interface()
		if !reflect.DeepEqual(got, want) {
			res = fmt.Sprintf("U diff got=%s want=%s", strings.ReplaceAll(fmt.Sprintf("%+v", derefAll(got)), " ", "_"), strings.ReplaceAll(fmt.Sprintf("%+v", derefAll(want)), " ", "_"))
			return
		}
		res = "U ok"
	})
	if o.panicked || o.hung {
		return verdictTok(o, nil)
	}
	return res
}

// derefAll prints pointers by their pointee where that is safe (only for the diff message)
func derefAll(v interface{}) interface{} {
	defer func() { recover() }()
	rv := reflect.ValueOf(v)
	switch rv.Kind() {
	case reflect.Slice:
		out := make([]interface{}, rv.Len())
		for i := range out {
			e := rv.Index(i)
			if e.Kind() == reflect.Ptr {
				out[i] = fmt.Sprintf("ptr:%#x", e.Pointer())
			} else {
				out[i] = e.Interface()
			}
		}
		return out
	}
	return v
}

const nUserunfCases = 11

func userunfCase(r *rng) string {
	c := r.n(nUserunfCases)
	seed := r.u64() % 1000003
	return fmt.Sprintf("userunf\t%d %d\t%s", c, seed, userunfRun(c, seed))
}

func userunfReplay(input string) string {
	f := strings.Fields(input)
	var seed uint64
	fmt.Sscan(f[1], &seed)
	return userunfRun(atoi(f[0]), seed)
}

var _ = structform.AnyType

func init() {
	kinds["userunf"] = kindT{userunfCase, userunfReplay}
}
