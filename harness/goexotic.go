package main

import (
	"fmt"
	"reflect"
	"sort"
	"strings"

	structform "github.com/elastic/go-structform"
	"github.com/elastic/go-structform/gotype"
)

// =================== C14 / C13: target types reflect.StructOf cannot build ===================
// exotic \t <idx> | events \t SETUPERR | R err | R ok V <printed value> [## TWIN <printed twin value>] | CORRUPT <where> | PANIC | HANG
//
// Hand-written target types whose shape is outside the generated grammar: maps keyed by a
// named string type, named slices / maps / empty interfaces, and interfaces WITH methods in
// every position.  Each type that can hold generic data has a plain twin (the same type with
// the names removed); the same stream is unfolded into both and the results must print the
// same.  A target that cannot hold generic data (non-empty interface) must be refused by an
// error; whatever happens, every interface slot of the target must hold a value whose dynamic
// type implements the slot's static type (no type confusion through unsafe writes).
type exNamedStr string
type exZone string
type exEmpty interface{}
type exIntList []int
type exStrMap map[string]string
type exInner struct {
	A int
	B string `struct:"b,omitempty"`
}
type exStringer interface{ String() string }

type exotic struct {
	name   string
	target func() interface{} // pointer to a fresh zero value
	twin   func() interface{} // nil: no twin
	pre    func() interface{} // if set: the same Unfolder was first given this target (and Reset)
}

// a recursive type with a field that cannot be unfolded into
type exRecBad struct {
	V    int
	Next *exRecBad
	Kids []exRecBad
	Bad  chan int
}

var exotics = []exotic{
	{"map[NamedStr]struct", func() interface{} { return new(map[exNamedStr]exInner) }, func() interface{} { return new(map[string]exInner) }, nil},
	{"map[NamedStr][]int", func() interface{} { return new(map[exNamedStr][]int) }, func() interface{} { return new(map[string][]int) }, nil},
	{"map[NamedStr]map[string]any", func() interface{} { return new(map[exNamedStr]map[string]interface{}) }, func() interface{} { return new(map[string]map[string]interface{}) }, nil},
	{"map[NamedStr]*int", func() interface{} { return new(map[exNamedStr]*int) }, func() interface{} { return new(map[string]*int) }, nil},
	{"map[NamedStr]int", func() interface{} { return new(map[exNamedStr]int) }, func() interface{} { return new(map[string]int) }, nil},
	{"map[NamedStr]any", func() interface{} { return new(map[exNamedStr]interface{}) }, func() interface{} { return new(map[string]interface{}) }, nil},
	{"struct{M map[NamedStr]Inner}", func() interface{} {
		return new(struct {
			M map[exNamedStr]exInner
			N int
		})
	}, func() interface{} {
		return new(struct {
			M map[string]exInner
			N int
		})
	}, nil},
	{"[]NamedEmpty", func() interface{} { return new([]exEmpty) }, func() interface{} { return new([]interface{}) }, nil},
	{"map[string]NamedEmpty", func() interface{} { return new(map[string]exEmpty) }, func() interface{} { return new(map[string]interface{}) }, nil},
	{"map[string]IntList", func() interface{} { return new(map[string]exIntList) }, func() interface{} { return new(map[string][]int) }, nil},
	{"[]StrMap", func() interface{} { return new([]exStrMap) }, func() interface{} { return new([]map[string]string) }, nil},
	{"[]NamedStr", func() interface{} { return new([]exNamedStr) }, func() interface{} { return new([]string) }, nil},
	// interfaces with methods: cannot hold generic data
	{"[]Stringer", func() interface{} { return new([]exStringer) }, nil, nil},
	{"map[string]error", func() interface{} { return new(map[string]error) }, nil, nil},
	{"struct{A int; F Stringer}", func() interface{} {
		return new(struct {
			A int
			F exStringer
		})
	}, nil, nil},
	{"*Stringer", func() interface{} { return new(exStringer) }, nil, nil},
	{"[]*Stringer", func() interface{} { return new([]*exStringer) }, nil, nil},
	{"map[NamedStr]Stringer", func() interface{} { return new(map[exNamedStr]exStringer) }, nil, nil},
	{"struct{S []error}", func() interface{} {
		return new(struct {
			S []error
			T string
		})
	}, nil, nil},
	// an Unfolder that refused a recursive type once must refuse everything built from it as a new one does
	{"**RecBad after *RecBad", func() interface{} { return new(*exRecBad) }, func() interface{} { return new(*exRecBad) }, func() interface{} { return new(exRecBad) }},
	{"*[]RecBad after *RecBad", func() interface{} { return new([]exRecBad) }, func() interface{} { return new([]exRecBad) }, func() interface{} { return new(exRecBad) }},
	{"map[string]*RecBad after *RecBad", func() interface{} { return new(map[string]*exRecBad) }, func() interface{} { return new(map[string]*exRecBad) }, func() interface{} { return new(exRecBad) }},
	{"struct{maps with three string-kinded key types}", func() interface{} {
		return new(struct {
			A map[string]exInner
			B map[exNamedStr]exInner
			C map[exZone][]int
			D map[exNamedStr][]int
		})
	}, func() interface{} {
		return new(struct {
			A map[string]exInner
			B map[string]exInner
			C map[string][]int
			D map[string][]int
		})
	}, nil},
}

// printNorm prints a value without type names, maps sorted by key.
func printNorm(v reflect.Value, sb *strings.Builder) {
	if !v.IsValid() {
		sb.WriteString("invalid")
		return
	}
	switch v.Kind() {
	case reflect.Interface, reflect.Ptr:
		if v.IsNil() {
			sb.WriteString("nil")
			return
		}
		if v.Kind() == reflect.Ptr {
			sb.WriteString("&")
		}
		printNorm(v.Elem(), sb)
	case reflect.Map:
		if v.IsNil() {
			sb.WriteString("nil")
			return
		}
		keys := v.MapKeys()
		sort.Slice(keys, func(i, j int) bool { return keys[i].String() < keys[j].String() })
		sb.WriteString("{")
		for _, k := range keys {
			fmt.Fprintf(sb, "%q:", k.String())
			printNorm(v.MapIndex(k), sb)
			sb.WriteString(" ")
		}
		sb.WriteString("}")
	case reflect.Slice, reflect.Array:
		if v.Kind() == reflect.Slice && v.IsNil() {
			sb.WriteString("nil")
			return
		}
		sb.WriteString("[")
		for i := 0; i < v.Len(); i++ {
			printNorm(v.Index(i), sb)
			sb.WriteString(" ")
		}
		sb.WriteString("]")
	case reflect.Struct:
		sb.WriteString("(")
		for i := 0; i < v.NumField(); i++ {
			printNorm(v.Field(i), sb)
			sb.WriteString(" ")
		}
		sb.WriteString(")")
	case reflect.String:
		fmt.Fprintf(sb, "%q", v.String())
	default:
		fmt.Fprintf(sb, "%v", v.Interface())
	}
}

// integrity: every non-nil interface slot holds a value that implements the slot's type
func integrity(v reflect.Value, path string) string {
	switch v.Kind() {
	case reflect.Interface:
		if v.IsNil() {
			return ""
		}
		if v.NumMethod() > 0 && !v.Elem().Type().Implements(v.Type()) {
			return path + ":" + v.Elem().Type().String() + "-in-" + v.Type().String()
		}
		return integrity(v.Elem(), path)
	case reflect.Ptr:
		if v.IsNil() {
			return ""
		}
		return integrity(v.Elem(), path+"*")
	case reflect.Map:
		for _, k := range v.MapKeys() {
			if s := integrity(v.MapIndex(k), path+"[k]"); s != "" {
				return s
			}
		}
	case reflect.Slice, reflect.Array:
		for i := 0; i < v.Len(); i++ {
			if s := integrity(v.Index(i), path+"[i]"); s != "" {
				return s
			}
		}
	case reflect.Struct:
		for i := 0; i < v.NumField(); i++ {
			if s := integrity(v.Field(i), path+"."+v.Type().Field(i).Name); s != "" {
				return s
			}
		}
	}
	return ""
}

func exoticUnfold(pre, target interface{}, evs []event, cache bool) string {
	u, err := gotype.NewUnfolder(nil)
	if err != nil {
		return "SETUPERR"
	}
	if cache {
		u.EnableKeyCache(4)
	}
	if pre != nil {
		_ = u.SetTarget(pre) // an earlier target of this Unfolder (refused or not)
		u.Reset()
	}
	if err := u.SetTarget(target); err != nil {
		return "SETUPERR"
	}
	if _, err := play(structform.EnsureExtVisitor(u), evs); err != nil {
		if s := integrity(reflect.ValueOf(target).Elem(), ""); s != "" {
			return "CORRUPT " + s
		}
		return "R err"
	}
	if s := integrity(reflect.ValueOf(target).Elem(), ""); s != "" {
		return "CORRUPT " + s
	}
	var sb strings.Builder
	printNorm(reflect.ValueOf(target).Elem(), &sb)
	return "R ok V " + strings.ReplaceAll(sb.String(), " ", "_")
}

func exoticRun(idx int, evs []event) string {
	x := exotics[idx]
	var res string
	o := guard(guardTime, func() {
		var pre interface{}
		if x.pre != nil {
			pre = x.pre()
		}
		// half of the cases unfold the hand-written target with the key cache on (the twin never has it)
		res = exoticUnfold(pre, x.target(), evs, len(evs)%2 == 0)
		if x.twin != nil && !strings.HasPrefix(res, "CORRUPT") {
			tw := exoticUnfold(nil, x.twin(), evs, false)
			if tw != res {
				res += " ## TWIN " + strings.ReplaceAll(tw, " ", "_")
			}
		}
	})
	if o.panicked || o.hung {
		return verdictTok(o, nil)
	}
	return res
}

func exoticCase(r *rng) string {
	idx := r.n(len(exotics))
	x := exotics[idx]
	// a stream that fits the target's shape (folded from a value of the twin type, or of a
	// look-alike for the method-interface targets), delivered in varying ways
	var shape reflect.Type
	if strings.Contains(x.name, "RecBad") {
		shape = reflect.TypeOf(struct{ V int }{})
	} else if x.twin != nil {
		shape = reflect.TypeOf(x.twin()).Elem()
	} else {
		shape = map[string]reflect.Type{
			"[]Stringer":                reflect.TypeOf([]interface{}{}),
			"map[string]error":          reflect.TypeOf(map[string]interface{}{}),
			"struct{A int; F Stringer}": reflect.TypeOf(struct{ A, F int }{}),
			"*Stringer":                 reflect.TypeOf(0),
			"[]*Stringer":               reflect.TypeOf([]int{}),
			"map[NamedStr]Stringer":     reflect.TypeOf(map[string]string{}),
			"struct{S []error}":         reflect.TypeOf(struct{ S []string }{}),
		}[x.name]
	}
	var evs []event
	if r.chance(1, 6) {
		evs = r.unfoldStream(reflect.TypeOf(new(interface{})).Elem())
	} else {
		v := r.genGoValue(shape, 3)
		rec := newXRecorder(-1)
		var err error
		o := guard(guardTime, func() { err = gotype.Fold(v.Interface(), rec) })
		if o.panicked || o.hung || err != nil || len(rec.evs) == 0 {
			evs = []event{{kind: evNil, sc: scalar{kind: evNil}}}
		} else {
			evs = rec.evs
		}
	}
	evs = r.varyDelivery(evs)
	return fmt.Sprintf("exotic\t%d | %s\t%s", idx, eventsTok(evs), exoticRun(idx, evs))
}

func exoticReplay(input string) string {
	parts := strings.SplitN(input, "|", 2)
	return exoticRun(atoi(strings.TrimSpace(parts[0])), parseEventsTok(parts[1]))
}

func init() {
	kinds["exotic"] = kindT{exoticCase, exoticReplay}
}
