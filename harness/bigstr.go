package main

import (
	"bytes"
	"crypto/sha256"
	"encoding/binary"
	"fmt"
	"strings"
)

// =================== C09 / C04-C06 / C02: keys and strings at the buffer-size thresholds ===================
// bigstr<fmt> \t <size> <pos> <esc> <mode> \t S ok | S diff <i> got=<..> want=<..> | S err | PANIC | HANG
//
// One document with one very long key (pos 0: {"K":true}), string (pos 1: ["S",true]) or both a long
// string and a following key that needs unquoting (pos 2), of <size> raw bytes around 2^8, 2^15, 2^16,
// 2^20 and 2^21; for JSON with or without an escape sequence inside.  It is parsed whole (mode 0),
// written in 64 KiB-1 pieces (1), in two pieces cut inside the long literal (2), or read from an
// io.Reader (3); the events must be exactly the ones the document was built from.
// The documents are written by this file, not by the library's encoders.  Direct oracle, no Coq
// model: the extracted parser models are far too slow on megabyte inputs.
var bigStrSizes = []int{255, 256, 32767, 32768, 65535, 65536, 1<<20 - 9, 1<<20 - 8, 1<<20 + 1, 1<<21 + 3}

func bigContent(n int, esc bool) (raw, val []byte) {
	val = make([]byte, 0, n)
	for i := 0; len(val) < n; i++ {
		val = append(val, byte('a'+i%26))
	}
	if !esc {
		return val, val
	}
	// raw text with escapes at the front, in the middle and at the very end
	raw = make([]byte, 0, n+16)
	out := make([]byte, 0, n)
	raw = append(raw, `\n`...)
	out = append(out, '\n')
	half := n / 2
	for i := 0; len(raw) < n-8; i++ {
		c := byte('a' + i%26)
		raw, out = append(raw, c), append(out, c)
		if len(raw) == half {
			raw = append(raw, `ä`...)
			out = append(out, "ä"...)
		}
	}
	raw = append(raw, `\t`...)
	out = append(out, '\t')
	return raw, out
}

func cborHead(major byte, n int) []byte {
	switch {
	case n < 24:
		return []byte{major<<5 | byte(n)}
	case n < 256:
		return []byte{major<<5 | 24, byte(n)}
	case n < 65536:
		return []byte{major<<5 | 25, byte(n >> 8), byte(n)}
	}
	b := []byte{major<<5 | 26, 0, 0, 0, 0}
	binary.BigEndian.PutUint32(b[1:], uint32(n))
	return b
}

func ubjLen(n int) []byte {
	switch {
	case n < 128:
		return []byte{'i', byte(n)}
	case n < 256:
		return []byte{'U', byte(n)}
	case n < 32768:
		return []byte{'I', byte(n >> 8), byte(n)}
	}
	b := []byte{'l', 0, 0, 0, 0}
	binary.BigEndian.PutUint32(b[1:], uint32(n))
	return b
}

// bigStrDoc returns the document, the expected events, and an offset inside the long literal
func (f *format) bigStrDoc(size, pos int, esc bool) (doc []byte, want []event, inside int) {
	if f.name != "json" {
		esc = false
	}
	raw, val := bigContent(size, esc)
	k2raw, k2val := []byte(`k\n2`), []byte("k\n2")
	if f.name != "json" {
		k2raw = k2val
	}
	str := func(raw []byte, key bool) []byte {
		switch f.name {
		case "json":
			return append(append([]byte{'"'}, raw...), '"')
		case "cbor":
			return append(cborHead(3, len(raw)), raw...)
		}
		if key {
			return append(ubjLen(len(raw)), raw...)
		}
		return append(append([]byte{'S'}, ubjLen(len(raw))...), raw...)
	}
	tru := map[string][]byte{"json": []byte("true"), "cbor": {0xf5}, "ubj": {'T'}}[f.name]
	var b bytes.Buffer
	T := event{kind: evBool, sc: scalar{kind: evBool, b: true}}
	switch pos {
	case 0:
		switch f.name {
		case "json":
			b.WriteString("{")
			inside = b.Len() + len(raw)/2
			b.Write(str(raw, true))
			b.WriteString(":")
			b.Write(tru)
			b.WriteString("}")
		case "cbor":
			b.Write(cborHead(5, 1))
			inside = b.Len() + len(raw)/2
			b.Write(str(raw, true))
			b.Write(tru)
		default:
			b.WriteString("{")
			inside = b.Len() + len(raw)/2
			b.Write(str(raw, true))
			b.Write(tru)
			b.WriteString("}")
		}
		want = []event{{kind: evObjStart}, {kind: evKey, s: val}, T, {kind: evObjEnd}}
	case 1:
		switch f.name {
		case "json":
			b.WriteString("[")
			inside = b.Len() + len(raw)/2
			b.Write(str(raw, false))
			b.WriteString(",")
			b.Write(tru)
			b.WriteString("]")
		case "cbor":
			b.Write(cborHead(4, 2))
			inside = b.Len() + len(raw)/2
			b.Write(str(raw, false))
			b.Write(tru)
		default:
			b.WriteString("[")
			inside = b.Len() + len(raw)/2
			b.Write(str(raw, false))
			b.Write(tru)
			b.WriteString("]")
		}
		want = []event{{kind: evArrStart}, {kind: evStr, s: val}, T, {kind: evArrEnd}}
	default:
		switch f.name {
		case "json":
			b.WriteString(`{"k":`)
			inside = b.Len() + len(raw)/2
			b.Write(str(raw, false))
			b.WriteString(",")
			b.Write(str(k2raw, true))
			b.WriteString(":")
			b.Write(tru)
			b.WriteString("}")
		case "cbor":
			b.Write(cborHead(5, 2))
			b.Write(str([]byte("k"), true))
			inside = b.Len() + len(raw)/2
			b.Write(str(raw, false))
			b.Write(str(k2raw, true))
			b.Write(tru)
		default:
			b.WriteString("{")
			b.Write(str([]byte("k"), true))
			inside = b.Len() + len(raw)/2
			b.Write(str(raw, false))
			b.Write(str(k2raw, true))
			b.Write(tru)
			b.WriteString("}")
		}
		want = []event{{kind: evObjStart}, {kind: evKey, s: []byte("k")}, {kind: evStr, s: val}, {kind: evKey, s: k2val}, T, {kind: evObjEnd}}
	}
	return b.Bytes(), want, inside
}

func bigEvTok(e event) string {
	s := e.s
	cls := ""
	switch e.kind {
	case evStr, evStrRef:
		cls = "str"
		if e.kind == evStr && s == nil {
			s = e.sc.s
		}
	case evKey, evKeyRef:
		cls = "key"
	case evObjStart:
		return "{"
	case evObjEnd:
		return "}"
	case evArrStart:
		return "["
	case evArrEnd:
		return "]"
	case evBool:
		return fmt.Sprint("bool:", e.sc.b)
	default:
		return fmt.Sprint("other:", int(e.kind))
	}
	return fmt.Sprintf("%s:%d:%x", cls, len(s), sha256.Sum256(s))[:40]
}

func (f *format) bigStrRun(size, pos int, esc bool, mode int) string {
	doc, want, inside := f.bigStrDoc(size, pos, esc)
	rec := newRecorder(-1)
	var err error
	o := guard(4*guardTime, func() {
		switch mode {
		case 0:
			err = f.newParser(refRecorder{rec}).Parse(doc)
		case 1, 2:
			p := f.newParser(refRecorder{rec})
			var chunks [][]byte
			if mode == 2 {
				chunks = [][]byte{doc[:inside:inside], doc[inside:]}
			} else {
				for i := 0; i < len(doc); i += 65535 {
					j := i + 65535
					if j > len(doc) {
						j = len(doc)
					}
					chunks = append(chunks, doc[i:j:j])
				}
			}
			chunks = ownChunks(chunks)
			for _, c := range chunks {
				if _, err = p.Write(c); err != nil {
					return
				}
				scribble([][]byte{c})
			}
			err = p.VerifFinalize()
		default:
			_, err = f.parseReader(bytes.NewReader(doc), refRecorder{rec})
		}
	})
	if o.panicked || o.hung {
		return verdictTok(o, nil)
	}
	if err != nil {
		return "S err"
	}
	for i := 0; i < len(want) || i < len(rec.evs); i++ {
		g, w := "none", "none"
		if i < len(rec.evs) {
			g = bigEvTok(rec.evs[i])
		}
		if i < len(want) {
			w = bigEvTok(want[i])
		}
		if g != w {
			return fmt.Sprintf("S diff %d got=%s want=%s", i, g, w)
		}
	}
	return "S ok"
}

func (f *format) bigStrCase(r *rng) string {
	o := int(genOrdinal)
	size, pos, esc, mode := bigStrSizes[o%len(bigStrSizes)], (o/len(bigStrSizes))%3, (o/(3*len(bigStrSizes)))%2 == 1, r.n(4)
	e := 0
	if esc {
		e = 1
	}
	return fmt.Sprintf("bigstr%s\t%d %d %d %d\t%s", f.name, size, pos, e, mode, f.bigStrRun(size, pos, esc, mode))
}

func (f *format) bigStrReplay(input string) string {
	fl := strings.Fields(input)
	return f.bigStrRun(atoi(fl[0]), atoi(fl[1]), fl[2] == "1", atoi(fl[3]))
}

func init() {
	for _, n := range []string{"json", "ubj", "cbor"} {
		n := n
		kinds["bigstr"+n] = kindT{func(r *rng) string { return formats[n].bigStrCase(r) }, func(s string) string { return formats[n].bigStrReplay(s) }}
	}
}
