package main

import (
	"fmt"
	"io"
	"strings"

	structform "github.com/elastic/go-structform"
)

type parserI interface {
	Parse([]byte) error
	ParseString(string) error
	Write([]byte) (int, error)
	VerifFinalize() error
	depths() string
}

type decoderI interface {
	Next() error
}

type format struct {
	name            string
	newVisitor      func(w io.Writer, cfg int) (structform.Visitor, func() int)
	newParser       func(vs structform.Visitor) parserI
	parseReader     func(in io.Reader, vs structform.Visitor) (int64, error)
	pkgParse        func(b []byte, vs structform.Visitor) error // the package-level Parse
	pkgParseString  func(s string, vs structform.Visitor) error // the package-level ParseString
	newDecoder      func(in io.Reader, buf int, vs structform.Visitor) decoderI
	newBytesDecoder func(b []byte, vs structform.Visitor) decoderI
	genDoc          func(r *rng) []byte // any document: valid, unsupported, truncated, mutated, random
	genItem         func(r *rng) []byte // one valid top-level value
	sep             []byte              // separator between top-level values in a stream
	encOpts         genOpts
	cfgs            int                     // number of encoder configurations
	mergeRefs       bool                    // parser observations: by-value and by-reference strings/keys are one event kind
	containerDocs   bool                    // further documents on one encoder must be containers (no separator is written)
	floatTab        bool                    // encoder cases carry the strconv text of their floats (oracle of the model)
	refTokens       func(doc []byte) string // independent reference decoder (when it lives on the Go side)
}

var formats = map[string]*format{}

func itoa3(a, b, c int) string { return fmt.Sprintf("%d %d %d", a, b, c) }

// =================== encoder cases ===================
// <fmt>enc \t <cfg> <failAt> | toks \t W chunks E <idx|-> D <depth>
func (f *format) encRun(cfg, failAt int, evs []event) string {
	w := &recWriter{failAt: failAt}
	idx := -1
	var err error
	var depth int
	o := guard(guardTime, func() {
		vs, dep := f.newVisitor(w, cfg)
		idx, err = play(structform.EnsureExtVisitor(vs), evs)
		depth = dep()
	})
	if o.panicked || o.hung {
		return verdictTok(o, nil)
	}
	e := "-"
	if idx >= 0 {
		e = fmt.Sprint(idx)
		if err != errInjected {
			e += "!"
		}
	}
	return fmt.Sprintf("W %s E %s D %d", chunksTok(w.chunks), e, depth)
}

func (f *format) encCase(r *rng) string {
	eo := f.encOpts
	eo.longStr = f.name != "json" // the JSON encoder model is quadratic in the string length
	evs := r.genStream(eo)
	if r.chance(1, 4) { // a second document on the same encoder
		if f.containerDocs {
			if k := evs[0].kind; k == evArrStart || k == evObjStart {
				if e2 := r.genStream(f.encOpts); e2[0].kind == evArrStart || e2[0].kind == evObjStart {
					evs = append(evs, e2...)
				}
			}
		} else {
			evs = append(evs, r.genStream(f.encOpts)...)
		}
	}
	failAt := -1
	if r.chance(1, 3) {
		failAt = r.n(2*len(evs) + 1)
	}
	cfg := r.n(f.cfgs)
	tab := ""
	if f.floatTab {
		tab = " | " + floatTable(evs)
	}
	obs := f.encRun(cfg, failAt, evs)
	if f.refTokens != nil && failAt < 0 && strings.HasPrefix(obs, "W ") {
		// reference decoder on the bytes written
		var out []byte
		for _, t := range strings.Fields(obs)[1:] {
			if t == "E" {
				break
			}
			if t != "." {
				out = append(out, unhx(t)...)
			}
		}
		obs += " ## REF " + f.refTokens(out)
	}
	return fmt.Sprintf("%senc\t%d %d | %s%s\t%s", f.name, cfg, failAt, eventsTok(evs), tab, obs)
}

func (f *format) encReplay(input string) string {
	parts := strings.SplitN(input, "|", 3)
	h := strings.Fields(parts[0])
	return f.encRun(atoi(h[0]), atoi(h[1]), parseEventsTok(parts[1]))
}

// =================== parser cases ===================
// <fmt>parse \t <mode> <vfail> chunks... \t EV toks R verdict D depths
// modes: P = Parse(whole) ; S = ParseString ; W = Write* + end ; R = ParseReader(scripted reader)
func (f *format) parseRun(mode string, vfail int, chunks [][]byte) string {
	rec := newRecorder(vfail)
	if vfail <= -2 {
		// the visitor fails with io.EOF - an error value the parser's own plumbing also uses
		rec = newRecorder(-vfail - 2)
		rec.failErr = io.EOF
	}
	var err error
	depths := "- - -"
	var doc []byte
	for _, c := range chunks {
		doc = append(doc, c...)
	}
	chunks = ownChunks(chunks) // private copies: overwritten once the parser has returned
	o := guard(guardTime, func() {
		defer func() {
			scribble(chunks)
			scribble([][]byte{doc})
		}()
		switch mode {
		case "P":
			p := f.newParser(refRecorder{rec})
			err = p.Parse(doc[:len(doc):len(doc)])
			depths = p.depths()
		case "S":
			p := f.newParser(refRecorder{rec})
			err = p.ParseString(string(doc))
			depths = p.depths()
		case "G":
			err = f.pkgParse(doc[:len(doc):len(doc)], refRecorder{rec})
		case "T":
			err = f.pkgParseString(string(doc), refRecorder{rec})
		case "W":
			p := f.newParser(refRecorder{rec})
			for _, c := range chunks {
				if _, err = p.Write(c); err != nil {
					break
				}
			}
			if err == nil {
				err = p.VerifFinalize()
			}
			depths = p.depths()
		case "R", "E":
			steps := make([]readStep, len(chunks))
			for i, c := range chunks {
				steps[i] = readStep{data: c}
			}
			if mode == "E" && len(steps) > 0 {
				steps[len(steps)-1].eof = true // the last data arrives together with io.EOF
			}
			_, err = f.parseReader(&scriptReader{steps: steps}, refRecorder{rec})
		case "X":
			// Write ... Write, and the last piece through Parse (= feed + end of input)
			p := f.newParser(refRecorder{rec})
			for i, c := range chunks {
				if i == len(chunks)-1 {
					err = p.Parse(c)
				} else if _, err = p.Write(c); err != nil {
					break
				}
			}
			if len(chunks) == 0 {
				err = p.Parse(nil)
			}
			depths = p.depths()
		}
	})
	if err != nil && rec.failErr != nil && err == rec.failErr {
		err = errInjected // reported as "inj": the visitor's own error came back
	}
	evs := rec.evs
	if f.mergeRefs {
		for i := range evs {
			switch evs[i].kind {
			case evStr:
				evs[i] = event{kind: evStrRef, s: evs[i].sc.s}
			case evKey:
				evs[i].kind = evKeyRef
			}
		}
	}
	alias := ""
	if !o.hung {
		alias = rec.aliasFlag()
	}
	return fmt.Sprintf("EV %s R %s D %s%s", eventsTok(evs), verdictTok(o, err), depths, alias)
}

func (f *format) parseCase(r *rng) string {
	doc := f.genDoc(r)
	chunks := r.chunking(doc)
	mode := []string{"P", "W", "W", "W", "R", "S", "E", "X", "G", "T"}[r.n(10)]
	if mode == "X" && f.name == "json" {
		mode = "W" // json's Parse starts a new document
	}
	if mode == "P" || mode == "S" || mode == "G" || mode == "T" {
		chunks = [][]byte{doc}
	}
	vfail := -1
	if r.chance(1, 6) {
		vfail = r.n(12)
		if r.chance(1, 4) {
			vfail = -vfail - 2 // ... failing with io.EOF
		}
	}
	obs := f.parseRun(mode, vfail, chunks)
	// C02 direct oracle: the same document in one piece must give the same events and verdict
	flags := ""
	if mode != "P" && vfail == -1 {
		whole := f.parseRun("P", -1, [][]byte{doc})
		a, b := stripDepth(obs), stripDepth(whole)
		if a != b {
			flags = " ## C02 whole=" + strings.ReplaceAll(b, " ", "_")
		}
	}
	if f.refTokens != nil && vfail == -1 {
		flags += " ## REF " + f.refTokens(doc)
	}
	return fmt.Sprintf("%sparse\t%s %d %s\t%s%s", f.name, mode, vfail, chunksTok(chunks), obs, flags)
}

func stripDepth(obs string) string {
	if i := strings.Index(obs, " D "); i >= 0 {
		obs = obs[:i]
	}
	return obs
}

func (f *format) parseReplay(input string) string {
	fl := strings.Fields(input)
	return f.parseRun(fl[0], atoi(fl[1]), parseChunks(fl[2:]))
}

// =================== decoder cases ===================
// <fmt>dec \t <B|R> <bufsize> <nexts> <script: hex[+e] ...> \t per Next: "EV toks R verdict ;" ...
func (f *format) decRun(kind string, bufsize, nexts, vfail int, steps []readStep) string {
	var sb strings.Builder
	after := ""
	rec := newRecorder(vfail)
	var dec decoderI
	merge := func(evs []event) []event {
		if f.mergeRefs {
			for i := range evs {
				switch evs[i].kind {
				case evStr:
					evs[i] = event{kind: evStrRef, s: evs[i].sc.s}
				case evKey:
					evs[i].kind = evKeyRef
				}
			}
		}
		return evs
	}
	if kind == "B" {
		var doc []byte
		for _, s := range steps {
			doc = append(doc, s.data...)
		}
		dec = f.newBytesDecoder(doc, refRecorder{rec})
	} else {
		st := make([]readStep, len(steps))
		copy(st, steps)
		dec = f.newDecoder(&scriptReader{steps: st}, bufsize, refRecorder{rec})
	}
	for i := 0; i < nexts; i++ {
		rec.evs = nil
		var err error
		o := guard(guardTime, func() { err = dec.Next() })
		fmt.Fprintf(&sb, "EV %s R %s ; ", eventsTok(merge(rec.evs)), verdictTok(o, err))
		if o.panicked || o.hung || (err != nil) {
			if err != nil && err != io.EOF && !o.panicked && !o.hung {
				// the caller tries again, with a visitor that accepts everything now: a failed
				// stream must stay failed and deliver nothing more
				rec.evs, rec.failAt = nil, -1
				var err2 error
				o2 := guard(guardTime, func() { err2 = dec.Next() })
				if o2.panicked || o2.hung || err2 == nil || len(rec.evs) > 0 {
					after = fmt.Sprintf(" ## C16AFTER %s/%d", verdictTok(o2, err2), len(rec.evs))
				}
			}
			break
		}
	}
	return strings.TrimSpace(sb.String()) + after
}

func scriptTok(steps []readStep) string {
	if len(steps) == 0 {
		return "."
	}
	parts := make([]string, len(steps))
	for i, s := range steps {
		parts[i] = hx(s.data)
		if s.eof {
			parts[i] += "+e"
		}
	}
	return strings.Join(parts, " ")
}

func parseScript(toks []string) []readStep {
	var steps []readStep
	for _, t := range toks {
		if t == "." {
			continue
		}
		eof := strings.HasSuffix(t, "+e")
		t = strings.TrimSuffix(t, "+e")
		steps = append(steps, readStep{data: unhx(t), eof: eof})
	}
	return steps
}

// script cuts the stream into reads of size 1..bufsize; the last one may carry io.EOF
func (r *rng) readScript(doc []byte, bufsize int) []readStep {
	var steps []readStep
	mode := r.n(3)
	empties := r.chance(1, 4)
	for i := 0; i < len(doc); {
		n := bufsize
		switch mode {
		case 0:
			n = 1
		case 1:
			n = 1 + r.n(bufsize)
		}
		if i+n > len(doc) {
			n = len(doc) - i
		}
		steps = append(steps, readStep{data: doc[i : i+n]})
		i += n
		if empties && r.chance(1, 4) {
			steps = append(steps, readStep{}) // a Read returning (0, nil)
		}
	}
	if len(steps) > 0 && r.bool() {
		steps[len(steps)-1].eof = true
	}
	return steps
}

func (f *format) decCase(r *rng) string {
	var doc []byte
	k := r.n(5)
	for i := 0; i < k; i++ {
		if i > 0 {
			doc = append(doc, f.sep...)
		}
		doc = append(doc, f.genItem(r)...)
	}
	switch r.n(6) {
	case 0: // truncated stream
		if len(doc) > 1 {
			doc = doc[:1+r.n(len(doc)-1)]
		}
	case 1:
		doc = append(doc, f.sep...)
		doc = append(doc, f.genDoc(r)...)
	}
	kind := "R"
	if r.chance(1, 4) {
		kind = "B"
	}
	bufsize := []int{1, 2, 3, 4, 7, 8, 16, 64}[r.n(8)]
	scriptSize := bufsize
	if r.chance(1, 40) {
		// a degenerate buffer size: the decoder must fall back to a buffer of its own choosing
		bufsize = []int{0, -1}[r.n(2)]
		scriptSize = 64
	}
	steps := r.readScript(doc, scriptSize)
	if kind == "B" {
		steps = []readStep{{data: doc}}
	}
	nexts := k + 2
	vfail := -1
	if r.chance(1, 6) {
		vfail = r.n(10) // the visitor fails from its vfail-th event on (counted over all Next calls)
	}
	obs := f.decRun(kind, bufsize, nexts, vfail, steps)
	if f.refTokens != nil {
		obs += " ## REF " + f.refTokens(doc)
	}
	return fmt.Sprintf("%sdec\t%s %d %d %d %s\t%s", f.name, kind, bufsize, nexts, vfail, scriptTok(steps), obs)
}

func (f *format) decReplay(input string) string {
	fl := strings.Fields(input)
	return f.decRun(fl[0], atoi(fl[1]), atoi(fl[2]), atoi(fl[3]), parseScript(fl[4:]))
}

func registerFormat(f *format) {
	formats[f.name] = f
	kinds[f.name+"enc"] = kindT{f.encCase, f.encReplay}
	kinds[f.name+"parse"] = kindT{f.parseCase, f.parseReplay}
	kinds[f.name+"dec"] = kindT{f.decCase, f.decReplay}
}
