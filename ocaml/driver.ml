(* sfmodel: reads case lines "kind \t input \t impl-observation" on stdin, runs
   the extracted Coq model (L1) and the extracted oracles (L0) and prints one
   verdict line per case:
     OK <lineno>
     CORR <lineno> <kind> model=<observation>          model and implementation differ
     ORACLE <lineno> <kind> <prop> <message>           implementation violates an L0 oracle  *)
module ZA = Z
open Sfmodel

(* ---------- conversions ---------- *)
let rec pos_of_zt (n : ZA.t) : positive =
  if ZA.equal n ZA.one then XH
  else if ZA.testbit n 0 then XI (pos_of_zt (ZA.shift_right n 1))
  else XO (pos_of_zt (ZA.shift_right n 1))

let z_of_zt (n : ZA.t) : z =
  let s = ZA.sign n in
  if s = 0 then Z0 else if s > 0 then Zpos (pos_of_zt n) else Zneg (pos_of_zt (ZA.neg n))

let rec zt_of_pos (p : positive) : ZA.t =
  match p with
  | XH -> ZA.one
  | XO q -> ZA.shift_left (zt_of_pos q) 1
  | XI q -> ZA.succ (ZA.shift_left (zt_of_pos q) 1)

let zt_of_z (x : z) : ZA.t =
  match x with Z0 -> ZA.zero | Zpos p -> zt_of_pos p | Zneg p -> ZA.neg (zt_of_pos p)

let z_of_int (i : int) : z = z_of_zt (ZA.of_int i)
let int_of_z (x : z) : int = ZA.to_int (zt_of_z x)
let z_of_string (s : string) : z = z_of_zt (ZA.of_string s)
let string_of_z (x : z) : string = ZA.to_string (zt_of_z x)

let byte_tab : z array = Array.init 256 z_of_int

let hexval c =
  match c with
  | '0' .. '9' -> Char.code c - 48
  | 'a' .. 'f' -> Char.code c - 87
  | 'A' .. 'F' -> Char.code c - 55
  | _ -> failwith "bad hex"

let bytes_of_hex (s : string) : z list =
  if s = "-" then []
  else begin
    let n = String.length s / 2 in
    let rec go i acc =
      if i < 0 then acc
      else go (i - 1) (byte_tab.(hexval s.[2 * i] * 16 + hexval s.[(2 * i) + 1]) :: acc)
    in
    go (n - 1) []
  end

let hex_of_bytes (l : z list) : string =
  if l = [] then "-"
  else begin
    let b = Buffer.create 16 in
    List.iter (fun x -> Buffer.add_string b (Printf.sprintf "%02x" (int_of_z x land 255))) l;
    Buffer.contents b
  end

let words s = List.filter (fun w -> w <> "") (String.split_on_char ' ' s)


(* ---------- events <-> tokens (same format as harness/events.go) ---------- *)
let nkinds = [ ("i8", KInt8); ("i16", KInt16); ("i32", KInt32); ("i64", KInt64); ("i", KInt); ("by", KByte);
               ("u8", KUint8); ("u16", KUint16); ("u32", KUint32); ("u64", KUint64); ("u", KUint);
               ("f32", KFloat32); ("f64", KFloat64) ]
let nkind_name k = fst (List.find (fun (_, k') -> k' = k) nkinds)

let btypes = [| BAny; BByte; BString; BBool; BZero; BInt; BInt8; BInt16; BInt32; BInt64; BUint; BUint8; BUint16;
                BUint32; BUint64; BFloat32; BFloat64 |]
let btype_of_int i = btypes.(i)
let int_of_btype b = int_of_z (btype_code b)

let starts_with s p = String.length s >= String.length p && String.sub s 0 (String.length p) = p
let after s n = String.sub s n (String.length s - n)

let scalar_of_tok (t : string) : scalar =
  if t = "n" then SNil
  else if t = "t" then SBool true
  else if t = "f" then SBool false
  else if starts_with t "s:" then SStr (bytes_of_hex (after t 2))
  else
    let i = String.index t ':' in
    let name = String.sub t 0 i and v = after t (i + 1) in
    SNum (List.assoc name nkinds, z_of_string v)

let tok_of_scalar (s : scalar) : string =
  match s with
  | SNil -> "n"
  | SBool true -> "t"
  | SBool false -> "f"
  | SStr b -> "s:" ^ hex_of_bytes b
  | SNum (k, z) -> nkind_name k ^ ":" ^ string_of_z z

let split_nonempty c s = if s = "" then [] else String.split_on_char c s

let event_of_tok (t : string) : event =
  if t = "]" then EArrEnd
  else if t = "}" then EObjEnd
  else if starts_with t "S:" then EStrRef (bytes_of_hex (after t 2))
  else if starts_with t "k:" then EKey (bytes_of_hex (after t 2))
  else if starts_with t "K:" then EKeyRef (bytes_of_hex (after t 2))
  else if starts_with t "[:" || starts_with t "{:" then begin
    match String.split_on_char ':' (after t 2) with
    | [ n; bt ] ->
        if t.[0] = '[' then EArrStart (z_of_string n, btype_of_int (int_of_string bt))
        else EObjStart (z_of_string n, btype_of_int (int_of_string bt))
    | _ -> failwith ("bad start token " ^ t)
  end
  else if starts_with t "X[:" then begin
    let r = after t 3 in
    let i = String.index r ':' in
    let bt = btype_of_int (int_of_string (String.sub r 0 i)) in
    EXArr (bt, List.map scalar_of_tok (split_nonempty ',' (after r (i + 1))))
  end
  else if starts_with t "X{:" then begin
    let r = after t 3 in
    let i = String.index r ':' in
    let bt = btype_of_int (int_of_string (String.sub r 0 i)) in
    EXObj
      ( bt,
        List.map
          (fun kv ->
            let j = String.index kv '=' in
            (bytes_of_hex (String.sub kv 0 j), scalar_of_tok (after kv (j + 1))))
          (split_nonempty ',' (after r (i + 1))) )
  end
  else EVal (scalar_of_tok t)

let tok_of_event (e : event) : string =
  match e with
  | EVal s -> tok_of_scalar s
  | EStrRef b -> "S:" ^ hex_of_bytes b
  | EKey b -> "k:" ^ hex_of_bytes b
  | EKeyRef b -> "K:" ^ hex_of_bytes b
  | EArrStart (n, bt) -> Printf.sprintf "[:%s:%d" (string_of_z n) (int_of_btype bt)
  | EArrEnd -> "]"
  | EObjStart (n, bt) -> Printf.sprintf "{:%s:%d" (string_of_z n) (int_of_btype bt)
  | EObjEnd -> "}"
  | EXArr (bt, es) -> Printf.sprintf "X[:%d:%s" (int_of_btype bt) (String.concat "," (List.map tok_of_scalar es))
  | EXObj (bt, ms) ->
      Printf.sprintf "X{:%d:%s" (int_of_btype bt)
        (String.concat "," (List.map (fun (k, v) -> hex_of_bytes k ^ "=" ^ tok_of_scalar v) ms))

let events_of_toks (ts : string list) : event list =
  List.map event_of_tok (List.filter (fun t -> t <> ".") ts)

let toks_of_events (evs : event list) : string =
  if evs = [] then "." else String.concat " " (List.map tok_of_event evs)

let chunks_of_toks ts = List.map bytes_of_hex (List.filter (fun t -> t <> ".") ts)
let toks_of_chunks cs = if cs = [] then "." else String.concat " " (List.map hex_of_bytes cs)

let nat_of_int (i : int) : nat =
  let rec go i acc = if i <= 0 then acc else go (i - 1) (S acc) in
  go i O
let rec int_of_nat (n : nat) : int = match n with O -> 0 | S m -> 1 + int_of_nat m

let fail_opt (i : int) : nat option = if i < 0 then None else Some (nat_of_int i)

(* split "a ## b" *)
let split_flags (obs : string) : string * string =
  match Str.bounded_split_delim (Str.regexp_string " ## ") obs 2 with
  | [ a; b ] -> (a, b)
  | _ -> (obs, "")

(* split a token list at the first occurrence of a marker token *)
let rec split_at (m : string) (ts : string list) : string list * string list =
  match ts with
  | [] -> ([], [])
  | t :: r -> if t = m then ([], r) else let a, b = split_at m r in (t :: a, b)

let strip_depth (obs : string) : string =
  match Str.bounded_split_delim (Str.regexp_string " D ") obs 2 with a :: _ -> a | [] -> obs

(* merge by-value and by-reference delivery for value comparisons *)
let tree_of_events (evs : event list) : tree option = stream_tree evs

let rec take_trees (evs : event list) (fuel : int) : tree list option =
  if evs = [] then Some []
  else if fuel = 0 then None
  else
    match parse_tree (nat_of_int (List.length evs + 1)) evs with
    | Some (t, rest) -> ( match take_trees rest (fuel - 1) with Some ts -> Some (t :: ts) | None -> None)
    | None -> None

(* ---------- kinds ---------- *)
(* each handler returns (model observation, oracle failures) *)
type verdict = { model : string; oracle : (string * string) list }
let lru_case (input : string) (_obs : string) : verdict =
  match words input with
  | cap :: keys ->
      let cap = z_of_string cap in
      let keys = List.map bytes_of_hex keys in
      let model =
        match lru_run (lru_init cap) keys with
        | Ok (rets, c) ->
            let b = Buffer.create 64 in
            Buffer.add_string b "R";
            List.iter (fun k -> Buffer.add_string b (" " ^ hex_of_bytes k)) rets;
            Buffer.add_string b " C";
            List.iter (fun k -> Buffer.add_string b (" " ^ hex_of_bytes k)) c.llst;
            Buffer.add_string b (Printf.sprintf " N %d" (List.length c.lm));
            Buffer.contents b
        | Panic _ -> "PANIC"
        | Err _ -> "ERR"
        | OutOfFuel -> "HANG"
      in
      (* L0 oracle (C20): every get returns the key it was asked for *)
      let expect = "R" ^ String.concat "" (List.map (fun k -> " " ^ hex_of_bytes k) keys) ^ " C" in
      let oracle =
        let n = String.length expect in
        if String.length _obs >= n && String.sub _obs 0 n = expect then []
        else [ ("C20", "get did not return the requested keys intact: " ^ _obs) ]
      in
      { model; oracle }
  | [] -> failwith "lru: empty input"


(* ---- CBOR encoder ---- *)
let cborenc_case (input : string) (obs : string) : verdict =
  match Str.bounded_split_delim (Str.regexp_string "|") input 2 with
  | [ f; toks ] ->
      let failat = int_of_string (String.trim f) in
      let evs = events_of_toks (words toks) in
      let e, idx = cbor_run (cenc0 (fail_opt failat)) evs O in
      let model =
        Printf.sprintf "W %s E %s D %d" (toks_of_chunks (w_chunks e.ce_w))
          (match idx with None -> "-" | Some i -> string_of_int (int_of_nat i))
          (List.length e.ce_len.ls_stack)
      in
      let oracle = ref [] in
      (* direct oracles on the implementation's output *)
      (match words obs with
      | "W" :: rest ->
          let chunks, rest' = split_at "E" rest in
          let eidx = match rest' with x :: _ -> x | [] -> "?" in
          let out = List.concat (chunks_of_toks chunks) in
          if failat < 0 then begin
            (* C07: an independent decoder reads back the value of the stream *)
            match take_trees evs 64 with
            | Some trees when List.for_all wf_tree trees ->
                if eidx <> "-" then oracle := ("C07", "encoder refused a well-formed stream at event " ^ eidx) :: !oracle
                else begin
                  let want = List.map (fun t -> cv (value_of t)) trees in
                  match cbor_decode_all (nat_of_int (List.length trees + 1)) out with
                  | Some got when List.length got = List.length want && List.for_all2 cvalue_eqb got want -> ()
                  | _ -> oracle := ("C07", "reference decoder does not read back the stream's value from " ^ hex_of_bytes out) :: !oracle
                end
            | _ -> ()
          end
          else begin
            (* C16: a failing writer must surface as the injected error no later than the last event *)
            let nwrites = List.length chunks in
            if nwrites > failat then begin
              if eidx = "-" then oracle := ("C16", "write #" ^ string_of_int failat ^ " failed but every call returned nil") :: !oracle
              else if String.contains eidx '!' then oracle := ("C16", "returned error is not the writer's error") :: !oracle
            end
          end
      | [ "PANIC" ] | [ "HANG" ] -> oracle := ("C07", "encoder crashed: " ^ obs) :: !oracle
      | _ -> ());
      { model; oracle = !oracle }
  | _ -> failwith "cborenc: bad input"

(* ---- CBOR parser ---- *)
let verdict_of_err (e : z) : string =
  let i = int_of_z e in
  if i = -1 then "ok" else if i = 99 then "inj" else if i = 8 then "eof" else "err"

let cbor_obs (r : (event list * z) res) : string =
  match r with
  | Ok (evs, err) -> Printf.sprintf "EV %s R %s" (toks_of_events evs) (verdict_of_err err)
  | Panic _ -> "PANIC"
  | OutOfFuel -> "HANG"
  | Err _ -> "MODELERR"

(* verdict comparison for the binary parsers: the model's PANIC/HANG must match the
   implementation's; events are compared literally *)
let cbor_ref_oracle (doc : z list) (evs : event list) (verdict : string) : (string * string) list =
  let o = ref [] in
  (if verdict = "PANIC" || verdict = "HANG" then o := ("C03", "parser " ^ verdict) :: !o);
  (* walk the stream with the reference decoder *)
  let rec walk b acc n =
    if b = [] then `Values (List.rev acc)
    else if n = 0 then `Stop
    else match cbor_decode b with
      | RValue (v, rest) -> walk rest (v :: acc) (n - 1)
      | RUnsupported -> `Unsupported
      | RTruncated -> `Truncated
      | RMalformed -> `Malformed
  in
  (match walk doc [] 64 with
  | `Values want ->
      if verdict <> "ok" then o := ("C05", "well-formed supported item refused: " ^ verdict) :: !o
      else begin
        match take_trees evs 64 with
        | Some trees ->
            let got = List.map (fun t -> cv (value_of t)) trees in
            if not (List.length got = List.length want && List.for_all2 cvalue_eqb got want) then
              o := ("C05", "reported value differs from the RFC 7049 value") :: !o;
            if not (List.for_all wf_tree trees) then o := ("C09", "accepted input produced an ill-formed event stream") :: !o
        | None -> o := ("C09", "accepted input produced an unbalanced event stream") :: !o
      end
  | `Unsupported -> if verdict = "ok" then o := ("C05", "item outside the subset accepted") :: !o
  | `Truncated -> if verdict = "ok" then o := ("C03", "input ending inside a value accepted") :: !o
  | `Malformed ->
      if verdict = "ok" then begin
        match take_trees evs 64 with
        | Some trees when List.for_all wf_tree trees -> ()
        | _ -> o := ("C09", "accepted input produced an ill-formed event stream") :: !o
      end
  | `Stop -> ());
  !o

let cborparse_case (input : string) (obs0 : string) : verdict =
  let obs, flags = split_flags obs0 in
  match words input with
  | mode :: vfail :: chunks ->
      let vfail = int_of_string vfail in
      let chunks = chunks_of_toks chunks in
      let r =
        if mode = "P" || mode = "S" then run_parse (fail_opt vfail) (List.concat chunks)
        else if mode = "R" then run_chunks (fail_opt vfail) (List.filter (fun c -> c <> []) chunks)
        else run_chunks (fail_opt vfail) chunks
      in
      let model = cbor_obs r in
      let oracle = ref [] in
      let impl = strip_depth obs in
      (match words impl with
      | "EV" :: rest ->
          let toks, rest' = split_at "R" rest in
          let verdict = match rest' with v :: _ -> v | [] -> "?" in
          let evs = events_of_toks toks in
          if vfail < 0 then oracle := cbor_ref_oracle (List.concat chunks) evs verdict
          else begin
            (* C16: visitor error at call #vfail is returned unchanged, no further event *)
            let n = List.length evs in
            if n > vfail then begin
              if n <> vfail + 1 then oracle := ("C16", "events delivered after the visitor failed") :: !oracle;
              if verdict <> "inj" then oracle := ("C16", "visitor error not returned unchanged: " ^ verdict) :: !oracle
            end
          end
      | _ -> oracle := [ ("C03", "parser crashed: " ^ impl) ]);
      (if flags <> "" then
         match words flags with p :: m -> oracle := (p, "chunked run differs from whole-buffer run: " ^ String.concat " " m) :: !oracle | [] -> ());
      (* the depth part of the observation is checked by C17 only through the oracle below *)
      (match Str.bounded_split_delim (Str.regexp_string " D ") obs 2 with
      | [ _; d ] ->
          let okrun = (match words impl with "EV" :: rest -> (match snd (split_at "R" rest) with "ok" :: _ -> true | _ -> false) | _ -> false) in
          if okrun && mode <> "R" && d <> "0 0 0" then oracle := ("C17", "stacks not idle after a complete document: " ^ d) :: !oracle
      | _ -> ());
      { model = (match Str.bounded_split_delim (Str.regexp_string " D ") obs 2 with [ _; d ] -> model ^ " D " ^ d | _ -> model); oracle = !oracle }
  | _ -> failwith "cborparse: bad input"

(* ---- CBOR decoder ---- *)
let script_of_toks ts =
  List.map
    (fun t ->
      let n = String.length t in
      if n >= 2 && String.sub t (n - 2) 2 = "+e" then (bytes_of_hex (String.sub t 0 (n - 2)), z_of_int 8)
      else (bytes_of_hex t, Z0))
    (List.filter (fun t -> t <> ".") ts)

let cbordec_case (input : string) (obs : string) : verdict =
  match words input with
  | kind :: _bufsize :: nexts :: script ->
      let nexts = int_of_string nexts in
      let script = script_of_toks script in
      let d0 =
        if kind = "B" then { d_p = cparser0; d_buf = List.concat (List.map fst script); d_script = []; d_bytesdec = true }
        else { d_p = cparser0; d_buf = []; d_script = script; d_bytesdec = false }
      in
      let total = List.fold_left (fun a (b, _) -> a + List.length b) 0 script in
      let b = Buffer.create 256 in
      let rec go d i =
        if i < nexts then begin
          match dec_next (nat_of_int (2 * total + List.length script + 8)) d (sink0 None) with
          | Ok ((d', s), err) ->
              Buffer.add_string b (Printf.sprintf "EV %s R %s ; " (toks_of_events (s_log s)) (verdict_of_err err));
              if int_of_z err = -1 then go d' (i + 1)
          | Panic _ -> Buffer.add_string b "EV . R PANIC ; "
          | OutOfFuel -> Buffer.add_string b "EV . R HANG ; "
          | Err _ -> Buffer.add_string b "EV . R MODELERR ; "
        end
      in
      go d0 0;
      let model = String.trim (Buffer.contents b) in
      (* C18 oracle: k complete items => k successful Next with exactly one value each, then eof;
         a stream ending inside an item => an error that is not eof *)
      let doc = List.concat (List.map fst script) in
      let oracle = ref [] in
      let rec walk b acc = if b = [] then `Values (List.rev acc) else match cbor_decode b with
        | RValue (v, rest) -> walk rest (v :: acc) | RTruncated -> `Truncated (List.rev acc) | _ -> `Other in
      let calls = List.filter (fun s -> String.trim s <> "") (Str.split (Str.regexp_string " ; ") (obs ^ " ")) in
      let parse_call c = match words c with "EV" :: rest -> let toks, r = split_at "R" rest in (events_of_toks toks, (match r with v :: _ -> v | [] -> "?")) | _ -> ([], "?") in
      let calls = List.map parse_call calls in
      (if List.exists (fun (_, v) -> v = "PANIC" || v = "HANG") calls then oracle := ("C03", "decoder crashed or hung") :: !oracle);
      (match walk doc [] with
      | `Values want ->
          let k = List.length want in
          if nexts > k then begin
            if List.length calls <> k + 1 then oracle := ("C18", Printf.sprintf "%d values but %d calls made progress" k (List.length calls)) :: !oracle
            else List.iteri (fun i (evs, v) ->
                if i < k then begin
                  if v <> "ok" then oracle := ("C18", Printf.sprintf "Next #%d returned %s" i v) :: !oracle
                  else match stream_tree evs with
                    | Some t when cvalue_eqb (cv (value_of t)) (List.nth want i) -> ()
                    | _ -> oracle := ("C18", Printf.sprintf "Next #%d did not deliver exactly value #%d" i i) :: !oracle
                end else if v <> "eof" then oracle := ("C18", "no io.EOF after the last value: " ^ v) :: !oracle) calls
          end
      | `Truncated _ ->
          (match List.rev calls with
           | (_, v) :: _ when v = "eof" || v = "ok" -> if List.length calls <= nexts && v = "eof" then oracle := ("C18", "stream ending inside a value reported as clean io.EOF") :: !oracle
           | _ -> ())
      | `Other -> ());
      { model; oracle = !oracle }
  | _ -> failwith "cbordec: bad input"

let handlers : (string * (string -> string -> verdict)) list =
  [ ("lru", lru_case); ("cborenc", cborenc_case); ("cborparse", cborparse_case); ("cbordec", cbordec_case) ]


let () =
  let lineno = ref 0 in
  try
    while true do
      let line = input_line stdin in
      incr lineno;
      match String.split_on_char '\t' line with
      | kind :: input :: obs :: _ -> (
          match List.assoc_opt kind handlers with
          | None -> Printf.printf "SKIP %d %s\n" !lineno kind
          | Some h -> (
              match h input obs with
              | v ->
                  let ok = ref true in
                  if v.model <> fst (split_flags obs) then begin
                    ok := false;
                    Printf.printf "CORR %d %s model=%s\n" !lineno kind v.model
                  end;
                  List.iter
                    (fun (p, m) ->
                      ok := false;
                      Printf.printf "ORACLE %d %s %s %s\n" !lineno kind p m)
                    v.oracle;
                  if !ok then Printf.printf "OK %d\n" !lineno
              | exception e ->
                  Printf.printf "CORR %d %s model=EXN:%s\n" !lineno kind (Printexc.to_string e)))
      | _ -> Printf.printf "SKIP %d malformed\n" !lineno
    done
  with End_of_file -> ()
