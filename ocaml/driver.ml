(* sfmodel: reads case lines "kind \t input \t impl-observation" on stdin, runs
   the extracted Coq model (L1) and the extracted oracles (L0) and prints one
   verdict line per case:
     OK <lineno>
     CORR <lineno> <kind> model=<observation>          model and implementation differ
     ORACLE <lineno> <kind> <prop> <message>           implementation violates an L0 oracle  *)
module ZA = Z
open Sfmodel

(* ---------- conversions ---------- *)
let rec pos_of_zt (n : ZA.t) : positive =
  if ZA.equal n ZA.one then XH
  else if ZA.testbit n 0 then XI (pos_of_zt (ZA.shift_right n 1))
  else XO (pos_of_zt (ZA.shift_right n 1))

let z_of_zt (n : ZA.t) : z =
  let s = ZA.sign n in
  if s = 0 then Z0 else if s > 0 then Zpos (pos_of_zt n) else Zneg (pos_of_zt (ZA.neg n))

let rec zt_of_pos (p : positive) : ZA.t =
  match p with
  | XH -> ZA.one
  | XO q -> ZA.shift_left (zt_of_pos q) 1
  | XI q -> ZA.succ (ZA.shift_left (zt_of_pos q) 1)

let zt_of_z (x : z) : ZA.t =
  match x with Z0 -> ZA.zero | Zpos p -> zt_of_pos p | Zneg p -> ZA.neg (zt_of_pos p)

let z_of_int (i : int) : z = z_of_zt (ZA.of_int i)
let int_of_z (x : z) : int = ZA.to_int (zt_of_z x)
let z_of_string (s : string) : z = z_of_zt (ZA.of_string s)
let string_of_z (x : z) : string = ZA.to_string (zt_of_z x)

let byte_tab : z array = Array.init 256 z_of_int

let hexval c =
  match c with
  | '0' .. '9' -> Char.code c - 48
  | 'a' .. 'f' -> Char.code c - 87
  | 'A' .. 'F' -> Char.code c - 55
  | _ -> failwith "bad hex"

let bytes_of_hex (s : string) : z list =
  if s = "-" then []
  else begin
    let n = String.length s / 2 in
    let rec go i acc =
      if i < 0 then acc
      else go (i - 1) (byte_tab.(hexval s.[2 * i] * 16 + hexval s.[(2 * i) + 1]) :: acc)
    in
    go (n - 1) []
  end

let hex_of_bytes (l : z list) : string =
  if l = [] then "-"
  else begin
    let b = Buffer.create 16 in
    List.iter (fun x -> Buffer.add_string b (Printf.sprintf "%02x" (int_of_z x land 255))) l;
    Buffer.contents b
  end

let words s = List.filter (fun w -> w <> "") (String.split_on_char ' ' s)

(* ---------- kinds ---------- *)
(* each handler returns (model observation, oracle failures) *)
type verdict = { model : string; oracle : (string * string) list }

let lru_case (input : string) (_obs : string) : verdict =
  match words input with
  | cap :: keys ->
      let cap = z_of_string cap in
      let keys = List.map bytes_of_hex keys in
      let model =
        match lru_run (lru_init cap) keys with
        | Ok (rets, c) ->
            let b = Buffer.create 64 in
            Buffer.add_string b "R";
            List.iter (fun k -> Buffer.add_string b (" " ^ hex_of_bytes k)) rets;
            Buffer.add_string b " C";
            List.iter (fun k -> Buffer.add_string b (" " ^ hex_of_bytes k)) c.llst;
            Buffer.add_string b (Printf.sprintf " N %d" (List.length c.lm));
            Buffer.contents b
        | Panic _ -> "PANIC"
        | Err _ -> "ERR"
        | OutOfFuel -> "HANG"
      in
      (* L0 oracle (C20): every get returns the key it was asked for *)
      let expect = "R" ^ String.concat "" (List.map (fun k -> " " ^ hex_of_bytes k) keys) ^ " C" in
      let oracle =
        let n = String.length expect in
        if String.length _obs >= n && String.sub _obs 0 n = expect then []
        else [ ("C20", "get did not return the requested keys intact: " ^ _obs) ]
      in
      { model; oracle }
  | [] -> failwith "lru: empty input"

let handlers : (string * (string -> string -> verdict)) list = [ ("lru", lru_case) ]

let () =
  let lineno = ref 0 in
  try
    while true do
      let line = input_line stdin in
      incr lineno;
      match String.split_on_char '\t' line with
      | kind :: input :: obs :: _ -> (
          match List.assoc_opt kind handlers with
          | None -> Printf.printf "SKIP %d %s\n" !lineno kind
          | Some h -> (
              match h input obs with
              | v ->
                  let ok = ref true in
                  if v.model <> obs then begin
                    ok := false;
                    Printf.printf "CORR %d %s model=%s\n" !lineno kind v.model
                  end;
                  List.iter
                    (fun (p, m) ->
                      ok := false;
                      Printf.printf "ORACLE %d %s %s %s\n" !lineno kind p m)
                    v.oracle;
                  if !ok then Printf.printf "OK %d\n" !lineno
              | exception e ->
                  Printf.printf "CORR %d %s model=EXN:%s\n" !lineno kind (Printexc.to_string e)))
      | _ -> Printf.printf "SKIP %d malformed\n" !lineno
    done
  with End_of_file -> ()
