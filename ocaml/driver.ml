(* sfmodel: reads case lines "kind \t input \t impl-observation" on stdin, runs
   the extracted Coq model (L1) and the extracted oracles (L0) and prints one
   verdict line per case:
     OK <lineno>
     CORR <lineno> <kind> model=<observation>          model and implementation differ
     ORACLE <lineno> <kind> <prop> <message>           implementation violates an L0 oracle  *)
module ZA = Z
open Sfmodel

(* ---------- conversions ---------- *)
let rec pos_of_zt (n : ZA.t) : positive =
  if ZA.equal n ZA.one then XH
  else if ZA.testbit n 0 then XI (pos_of_zt (ZA.shift_right n 1))
  else XO (pos_of_zt (ZA.shift_right n 1))

let z_of_zt (n : ZA.t) : z =
  let s = ZA.sign n in
  if s = 0 then Z0 else if s > 0 then Zpos (pos_of_zt n) else Zneg (pos_of_zt (ZA.neg n))

let rec zt_of_pos (p : positive) : ZA.t =
  match p with
  | XH -> ZA.one
  | XO q -> ZA.shift_left (zt_of_pos q) 1
  | XI q -> ZA.succ (ZA.shift_left (zt_of_pos q) 1)

let zt_of_z (x : z) : ZA.t =
  match x with Z0 -> ZA.zero | Zpos p -> zt_of_pos p | Zneg p -> ZA.neg (zt_of_pos p)

let z_of_int (i : int) : z = z_of_zt (ZA.of_int i)
let int_of_z (x : z) : int = ZA.to_int (zt_of_z x)
let z_of_string (s : string) : z = z_of_zt (ZA.of_string s)
let string_of_z (x : z) : string = ZA.to_string (zt_of_z x)

let byte_tab : z array = Array.init 256 z_of_int

let hexval c =
  match c with
  | '0' .. '9' -> Char.code c - 48
  | 'a' .. 'f' -> Char.code c - 87
  | 'A' .. 'F' -> Char.code c - 55
  | _ -> failwith "bad hex"

let bytes_of_hex (s : string) : z list =
  if s = "-" then []
  else begin
    let n = String.length s / 2 in
    let rec go i acc =
      if i < 0 then acc
      else go (i - 1) (byte_tab.(hexval s.[2 * i] * 16 + hexval s.[(2 * i) + 1]) :: acc)
    in
    go (n - 1) []
  end

let hex_of_bytes (l : z list) : string =
  if l = [] then "-"
  else begin
    let b = Buffer.create 16 in
    List.iter (fun x -> Buffer.add_string b (Printf.sprintf "%02x" (int_of_z x land 255))) l;
    Buffer.contents b
  end

let words s = List.filter (fun w -> w <> "") (String.split_on_char ' ' s)


(* ---------- events <-> tokens (same format as harness/events.go) ---------- *)
let nkinds = [ ("i8", KInt8); ("i16", KInt16); ("i32", KInt32); ("i64", KInt64); ("i", KInt); ("by", KByte);
               ("u8", KUint8); ("u16", KUint16); ("u32", KUint32); ("u64", KUint64); ("u", KUint);
               ("f32", KFloat32); ("f64", KFloat64) ]
let nkind_name k = fst (List.find (fun (_, k') -> k' = k) nkinds)

let btypes = [| BAny; BByte; BString; BBool; BZero; BInt; BInt8; BInt16; BInt32; BInt64; BUint; BUint8; BUint16;
                BUint32; BUint64; BFloat32; BFloat64 |]
let btype_of_int i = btypes.(i)
let int_of_btype b = int_of_z (btype_code b)

let starts_with s p = String.length s >= String.length p && String.sub s 0 (String.length p) = p
let after s n = String.sub s n (String.length s - n)

let scalar_of_tok (t : string) : scalar =
  if t = "n" then SNil
  else if t = "t" then SBool true
  else if t = "f" then SBool false
  else if starts_with t "s:" then SStr (bytes_of_hex (after t 2))
  else
    let i = String.index t ':' in
    let name = String.sub t 0 i and v = after t (i + 1) in
    SNum (List.assoc name nkinds, z_of_string v)

let tok_of_scalar (s : scalar) : string =
  match s with
  | SNil -> "n"
  | SBool true -> "t"
  | SBool false -> "f"
  | SStr b -> "s:" ^ hex_of_bytes b
  | SNum (k, z) -> nkind_name k ^ ":" ^ string_of_z z

let split_nonempty c s = if s = "" then [] else String.split_on_char c s

let event_of_tok (t : string) : event =
  if t = "]" then EArrEnd
  else if t = "}" then EObjEnd
  else if starts_with t "S:" then EStrRef (bytes_of_hex (after t 2))
  else if starts_with t "k:" then EKey (bytes_of_hex (after t 2))
  else if starts_with t "K:" then EKeyRef (bytes_of_hex (after t 2))
  else if starts_with t "[:" || starts_with t "{:" then begin
    match String.split_on_char ':' (after t 2) with
    | [ n; bt ] ->
        if t.[0] = '[' then EArrStart (z_of_string n, btype_of_int (int_of_string bt))
        else EObjStart (z_of_string n, btype_of_int (int_of_string bt))
    | _ -> failwith ("bad start token " ^ t)
  end
  else if starts_with t "X[:" then begin
    let r = after t 3 in
    let i = String.index r ':' in
    let bt = btype_of_int (int_of_string (String.sub r 0 i)) in
    EXArr (bt, List.map scalar_of_tok (split_nonempty ',' (after r (i + 1))))
  end
  else if starts_with t "X{:" then begin
    let r = after t 3 in
    let i = String.index r ':' in
    let bt = btype_of_int (int_of_string (String.sub r 0 i)) in
    EXObj
      ( bt,
        List.map
          (fun kv ->
            let j = String.index kv '=' in
            (bytes_of_hex (String.sub kv 0 j), scalar_of_tok (after kv (j + 1))))
          (split_nonempty ',' (after r (i + 1))) )
  end
  else EVal (scalar_of_tok t)

let tok_of_event (e : event) : string =
  match e with
  | EVal s -> tok_of_scalar s
  | EStrRef b -> "S:" ^ hex_of_bytes b
  | EKey b -> "k:" ^ hex_of_bytes b
  | EKeyRef b -> "K:" ^ hex_of_bytes b
  | EArrStart (n, bt) -> Printf.sprintf "[:%s:%d" (string_of_z n) (int_of_btype bt)
  | EArrEnd -> "]"
  | EObjStart (n, bt) -> Printf.sprintf "{:%s:%d" (string_of_z n) (int_of_btype bt)
  | EObjEnd -> "}"
  | EXArr (bt, es) -> Printf.sprintf "X[:%d:%s" (int_of_btype bt) (String.concat "," (List.map tok_of_scalar es))
  | EXObj (bt, ms) ->
      Printf.sprintf "X{:%d:%s" (int_of_btype bt)
        (String.concat "," (List.map (fun (k, v) -> hex_of_bytes k ^ "=" ^ tok_of_scalar v) ms))

let events_of_toks (ts : string list) : event list =
  List.map event_of_tok (List.filter (fun t -> t <> ".") ts)

let toks_of_events (evs : event list) : string =
  if evs = [] then "." else String.concat " " (List.map tok_of_event evs)

let chunks_of_toks ts = List.map bytes_of_hex (List.filter (fun t -> t <> ".") ts)
let toks_of_chunks cs = if cs = [] then "." else String.concat " " (List.map hex_of_bytes cs)

let nat_of_int (i : int) : nat =
  let rec go i acc = if i <= 0 then acc else go (i - 1) (S acc) in
  go i O
let rec int_of_nat (n : nat) : int = match n with O -> 0 | S m -> 1 + int_of_nat m

let contains s sub = try ignore (Str.search_forward (Str.regexp_string sub) s 0); true with Not_found -> false

let fail_opt (i : int) : nat option = if i < 0 then None else Some (nat_of_int i)

(* split "obs ## flag1 ## flag2": returns obs and the flag segments *)
let split_flags_all (obs : string) : string * string list =
  match Str.split_delim (Str.regexp_string " ## ") obs with
  | a :: fl -> (a, fl)
  | [] -> (obs, [])
let split_flags (obs : string) : string * string =
  let a, fl = split_flags_all obs in
  (a, String.concat " ## " fl)
let find_flag (key : string) (fl : string list) : string option =
  List.fold_left (fun acc f -> match acc with Some _ -> acc | None ->
      if String.length f > String.length key && String.sub f 0 (String.length key + 1) = key ^ " "
      then Some (String.sub f (String.length key + 1) (String.length f - String.length key - 1)) else None) None fl

(* split a token list at the first occurrence of a marker token *)
let rec split_at (m : string) (ts : string list) : string list * string list =
  match ts with
  | [] -> ([], [])
  | t :: r -> if t = m then ([], r) else let a, b = split_at m r in (t :: a, b)

let strip_depth (obs : string) : string =
  match Str.bounded_split_delim (Str.regexp_string " D ") obs 2 with a :: _ -> a | [] -> obs

(* merge by-value and by-reference delivery for value comparisons *)
let tree_of_events (evs : event list) : tree option = stream_tree evs

let rec take_trees (evs : event list) (fuel : int) : tree list option =
  if evs = [] then Some []
  else if fuel = 0 then None
  else
    match parse_tree (nat_of_int (List.length evs + 1)) evs with
    | Some (t, rest) -> ( match take_trees rest (fuel - 1) with Some ts -> Some (t :: ts) | None -> None)
    | None -> None

(* ---------- kinds ---------- *)
(* each handler returns (model observation, oracle failures) *)
type verdict = { model : string; oracle : (string * string) list }
let lru_case (input : string) (_obs : string) : verdict =
  match words input with
  | cap :: keys ->
      let cap = z_of_string cap in
      let keys = List.map bytes_of_hex keys in
      let model =
        match lru_run (lru_init cap) keys with
        | Ok (rets, c) ->
            let b = Buffer.create 64 in
            Buffer.add_string b "R";
            List.iter (fun k -> Buffer.add_string b (" " ^ hex_of_bytes k)) rets;
            Buffer.add_string b " C";
            List.iter (fun k -> Buffer.add_string b (" " ^ hex_of_bytes k)) c.llst;
            Buffer.add_string b (Printf.sprintf " N %d" (List.length c.lm));
            Buffer.contents b
        | Panic _ -> "PANIC"
        | Err _ -> "ERR"
        | OutOfFuel -> "HANG"
      in
      (* L0 oracle (C20): every get returns the key it was asked for *)
      let expect = "R" ^ String.concat "" (List.map (fun k -> " " ^ hex_of_bytes k) keys) ^ " C" in
      let oracle =
        let n = String.length expect in
        if String.length _obs >= n && String.sub _obs 0 n = expect then []
        else [ ("C20", "get did not return the requested keys intact: " ^ _obs) ]
      in
      { model; oracle }
  | [] -> failwith "lru: empty input"



(* ---- formats ---- *)
type fmt = {
  fname : string;
  (* encoder model: (cfg, failat, events) -> chunks, failing index, stack depth *)
  enc : int -> int -> event list -> z list list * int option * int;
  (* expected canonical value of a tree after a trip through the format (img) *)
  img : int -> tree -> cvalue option;   (* None: the encoder must refuse this tree *)
  decode : z list -> ref_result;
  decode_stream : z list -> int -> [ `Values of cvalue list | `Unsupported | `Truncated of cvalue list | `Malformed | `Stop ];
  parse : string -> int -> z list list -> string;  (* mode vfail chunks -> "EV ... R ..." *)
  dec : string -> int -> (z list * z) list -> int -> string;  (* kind nexts script vfail *)
  cprop : string;   (* conformance property of the parser *)
  idle : string;
  equiv : cvalue -> cvalue -> bool;   (* expected (img) vs decoded value *)
  extref : bool;    (* the reference decoder runs on the Go side (## REF tokens) *)
  hist : string -> z list list -> string;  (* mode docs -> observation of the last document on a reused parser *)
}
let all_fmts : fmt list ref = ref []

let res_obs (r : ((event list * z) * 'a) res) : string =
  match r with
  | Ok ((evs, err), _) -> Printf.sprintf "EV %s R %s" (toks_of_events evs)
                            (let i = int_of_z err in if i = -1 then "ok" else if i = 99 then "inj" else if i = 8 then "eof" else "err")
  | Panic _ -> "PANIC"
  | OutOfFuel -> "HANG"
  | Err _ -> "MODELERR"

let verdict_of_err (e : z) : string =
  let i = int_of_z e in
  if i = -1 then "ok" else if i = 99 then "inj" else if i = 8 then "eof" else "err"

let generic_stream (decode : z list -> ref_result) (sep_ok : z list -> z list) (doc : z list) (fuel : int) =
  let rec walk b acc n =
    let b = sep_ok b in
    if b = [] then `Values (List.rev acc)
    else if n = 0 then `Stop
    else match decode b with
      | RValue (v, rest) -> walk rest (v :: acc) (n - 1)
      | RUnsupported -> `Unsupported
      | RTruncated -> `Truncated (List.rev acc)
      | RMalformed -> `Malformed
  in
  walk doc [] fuel

(* decoder model loop shared by formats: next : state -> (state', events, err) res *)
let dec_loop (next : 'd -> nat option -> (('d * event list) * z) res) (d0 : 'd) (nexts : int) (vfail : int) : string =
  let b = Buffer.create 256 in
  let rec go d i seen =
    if i < nexts then begin
      let fo = if vfail < 0 then None else Some (nat_of_int (max 0 (vfail - seen))) in
      match next d fo with
      | Ok ((d', evs), err) ->
          Buffer.add_string b (Printf.sprintf "EV %s R %s ; " (toks_of_events evs) (verdict_of_err err));
          if int_of_z err = -1 then go d' (i + 1) (seen + List.length evs)
      | Panic _ -> Buffer.add_string b "EV . R PANIC ; "
      | OutOfFuel -> Buffer.add_string b "EV . R HANG ; "
      | Err _ -> Buffer.add_string b "EV . R MODELERR ; "
    end
  in
  go d0 0 0;
  String.trim (Buffer.contents b)

let script_total script = List.fold_left (fun a (b, _) -> a + List.length b) 0 script

(* CBOR *)
let cbor_fmt : fmt = {
  fname = "cbor";
  enc = (fun _cfg failat evs ->
      let e, idx = cbor_run (cenc0 (fail_opt failat)) evs O in
      (w_chunks e.ce_w, (match idx with None -> None | Some i -> Some (int_of_nat i)), List.length e.ce_len.ls_stack));
  img = (fun _ t -> Some (cv (value_of t)));
  decode = cbor_decode;
  decode_stream = (fun doc fuel -> generic_stream cbor_decode (fun b -> b) doc fuel);
  parse = (fun mode vfail chunks ->
      let r =
        if mode = "P" || mode = "S" || mode = "G" || mode = "T" then run_parse (fail_opt vfail) (List.concat chunks)
        else if mode = "R" || mode = "E" then run_chunks (fail_opt vfail) (List.filter (fun c -> c <> []) chunks)
        else run_chunks (fail_opt vfail) chunks in
      res_obs (match r with Ok x -> Ok (x, ()) | Panic w -> Panic w | OutOfFuel -> OutOfFuel | Err e -> Err e));
  dec = (fun kind nexts script vfail ->
      let d0 =
        if kind = "B" then { d_p = cparser0; d_buf = List.concat (List.map fst script); d_script = []; d_bytesdec = true }
        else { d_p = cparser0; d_buf = []; d_script = script; d_bytesdec = false } in
      let fuel = nat_of_int (2 * script_total script + List.length script + 8) in
      dec_loop (fun d fo -> match dec_next fuel d (sink0 fo) with
          | Ok ((d', s), err) -> Ok ((d', s_log s), err)
          | Panic w -> Panic w | OutOfFuel -> OutOfFuel | Err e -> Err e) d0 nexts vfail);
  cprop = "C05";
  idle = "0 0 0";
  equiv = cvalue_eqb;
  extref = false;
  hist = (fun modes docs ->
      let mode_at i = if String.length modes = 1 then modes else String.make 1 modes.[i] in
      let rec go i p docs = let mode = mode_at i in match docs with
        | [] -> "?"
        | [ d ] ->
            let r = if mode = "P" then p_parse p (sink0 None) d
              else (match p_write p (sink0 None) d with
                  | Ok ((p1, s1), e) -> Ok ((p1, s1), (if int_of_z e = -1 then finalize p1 else e))
                  | x -> x) in
            (match r with Ok ((_, s), e) -> Printf.sprintf "EV %s R %s" (toks_of_events (s_log s)) (verdict_of_err e)
                        | Panic _ -> "PANIC" | OutOfFuel -> "HANG" | Err _ -> "MODELERR")
        | d :: rest ->
            (match (if mode = "P" then p_parse p (sink0 None) d else p_write p (sink0 None) d) with
             | Ok ((p1, _), _) -> go (i + 1) p1 rest
             | _ -> "HISTERR") in
      go 0 cparser0 docs);
}

(* spec-level image for UBJSON (the property text): only integers above MaxInt64 become decimal strings *)
let rec ubj_spec_img (v : cvalue) : cvalue =
  match v with
  | CNum (CInt n) when ZA.gt (zt_of_z n) (ZA.of_string "9223372036854775807") ->
      CStr (List.map (fun c -> z_of_int (Char.code c)) (List.of_seq (String.to_seq (string_of_z n))))
  | CArr vs -> CArr (List.map ubj_spec_img vs)
  | CObj kvs -> CObj (List.map (fun (k, x) -> (k, ubj_spec_img x)) kvs)
  | _ -> v

let ubj_obs3 (r : (((event list * z) * uparser)) res) : string =
  match r with
  | Ok ((evs, err), _) -> Printf.sprintf "EV %s R %s" (toks_of_events evs) (verdict_of_err err)
  | Panic _ -> "PANIC" | OutOfFuel -> "HANG" | Err _ -> "MODELERR"

let skip_noops (b : z list) : z list =
  let rec go b = match b with x :: r when int_of_z x = 78 -> go r | _ -> b in
  go b

let ubj_fmt : fmt = {
  fname = "ubj";
  enc = (fun _cfg failat evs ->
      let e, idx = ubj_run (uenc0 (fail_opt failat)) evs O in
      (w_chunks e.ue_w, (match idx with None -> None | Some i -> Some (int_of_nat i)), List.length e.ue_len.ls_stack));
  img = (fun _ t -> Some (ubj_spec_img (cv (value_of t))));
  decode = ubj_decode;
  decode_stream = (fun doc fuel -> generic_stream ubj_decode skip_noops doc fuel);
  parse = (fun mode vfail chunks ->
      let r =
        if mode = "P" || mode = "S" || mode = "G" || mode = "T" then urun_parse (fail_opt vfail) (List.concat chunks)
        else if mode = "R" || mode = "E" then urun_chunks (fail_opt vfail) (List.filter (fun c -> c <> []) chunks)
        else urun_chunks (fail_opt vfail) chunks in
      ubj_obs3 r);
  dec = (fun kind nexts script vfail ->
      let d0 =
        if kind = "B" then { ud_p = uparser0; ud_buf = List.concat (List.map fst script); ud_script = []; ud_bytesdec = true }
        else { ud_p = uparser0; ud_buf = []; ud_script = script; ud_bytesdec = false } in
      let fuel = nat_of_int (2 * script_total script + List.length script + 8) in
      dec_loop (fun d fo -> match udec_next fuel d (sink0 fo) with
          | Ok ((d', s), err) -> Ok ((d', s_log s), err)
          | Panic w -> Panic w | OutOfFuel -> OutOfFuel | Err e -> Err e) d0 nexts vfail);
  cprop = "C06";
  idle = "0 0 0";
  equiv = cvalue_eqb;
  extref = false;
  hist = (fun modes docs ->
      let mode_at i = if String.length modes = 1 then modes else String.make 1 modes.[i] in
      let rec go i p docs = let mode = mode_at i in match docs with
        | [] -> "?"
        | [ d ] ->
            let r = if mode = "P" then up_parse p (sink0 None) d
              else (match up_write p (sink0 None) d with
                  | Ok ((p1, s1), e) -> if int_of_z e = -1 then Ok (ufin p1 s1) else Ok ((p1, s1), e)
                  | x -> x) in
            (match r with Ok ((_, s), e) -> Printf.sprintf "EV %s R %s" (toks_of_events (s_log s)) (verdict_of_err e)
                        | Panic _ -> "PANIC" | OutOfFuel -> "HANG" | Err _ -> "MODELERR")
        | d :: rest ->
            (match (if mode = "P" then up_parse p (sink0 None) d else up_write p (sink0 None) d) with
             | Ok ((p1, _), _) -> go (i + 1) p1 rest
             | _ -> "HISTERR") in
      go 0 uparser0 docs);
}


(* ---- JSON ---- *)
exception Unknown_float

let string_of_bytes (l : z list) : string =
  let b = Buffer.create 16 in
  List.iter (fun x -> Buffer.add_char b (Char.chr (int_of_z x land 255))) l; Buffer.contents b

let dec_float_re = Str.regexp "^[+-]?\\([0-9]+\\.?[0-9]*\\|\\.[0-9]+\\)\\([eE][+-]?[0-9]+\\)?$"

(* strconv.ParseFloat oracle for the model: decimal literals only; anything else is not decided here *)
let parse_float_oracle (tok : z list) : z option =
  let s = string_of_bytes tok in
  if Str.string_match dec_float_re s 0 then begin
    let f = float_of_string s in
    if Float.is_integer f && false then None
    else if Float.abs f = Float.infinity then None
    else Some (z_of_zt (ZA.extract (ZA.of_int64 (Int64.bits_of_float f)) 0 64))
  end
  else begin
    (* clearly malformed literals are errors; hex floats and other exotic forms are not decided *)
    let has c = String.contains s c in
    if has 'x' || has 'X' || has 'p' || has 'P' || has '_' || has 'n' || has 'N' || has 'i' || has 'I' then raise Unknown_float
    else None
  end

let float_table (seg : string) : (z -> z -> z list) =
  let tab = Hashtbl.create 16 in
  List.iter (fun t -> if t <> "." then
      match String.split_on_char '=' t with
      | [ k; v ] -> Hashtbl.replace tab k (bytes_of_hex v)
      | _ -> ()) (words seg);
  fun w bits -> match Hashtbl.find_opt tab (string_of_z w ^ ":" ^ string_of_z bits) with Some t -> t | None -> raise Unknown_float

let jcfg_of_int (c : int) : jcfg =
  { escape_html = c land 1 <> 0; ignore_invalid = c land 2 <> 0; explicit_radix = c land 4 <> 0 }

let current_ftab : (z -> z -> z list) ref = ref (fun _ _ -> raise Unknown_float)

let float_of_bits64 (b : z) : float = Int64.float_of_bits (ZA.to_int64 (ZA.signed_extract (zt_of_z b) 0 64))
let float_of_bits32 (b : z) : float = Int32.float_of_bits (ZA.to_int32 (ZA.signed_extract (zt_of_z b) 0 32))
let bits32_of_float (f : float) : ZA.t = ZA.extract (ZA.of_int32 (Int32.bits_of_float f)) 0 32

(* numeric equivalence through JSON text: expected (from the stream) vs decoded *)
let json_num_equiv (want : cnum) (got : cnum) : bool =
  match want, got with
  | CInt a, CInt b -> ZA.equal (zt_of_z a) (zt_of_z b)
  | CF64 a, CF64 b -> ZA.equal (zt_of_z a) (zt_of_z b)
  | CF64 a, CInt b -> let f = float_of_bits64 a in Float.is_integer f && ZA.equal (ZA.of_float f) (zt_of_z b)
  | CF32 a, CInt b -> let f = float_of_bits32 a in Float.is_integer f && ZA.equal (ZA.of_float f) (zt_of_z b)
  | CF32 a, CF64 b -> ZA.equal (bits32_of_float (float_of_bits64 b)) (zt_of_z a)
  | _, _ -> false

let rec json_equiv (want : cvalue) (got : cvalue) : bool =
  match want, got with
  | CNum a, CNum b -> json_num_equiv a b
  | CArr xs, CArr ys -> List.length xs = List.length ys && List.for_all2 json_equiv xs ys
  | CObj xs, CObj ys -> List.length xs = List.length ys && List.for_all2 (fun (k1, x) (k2, y) -> k1 = k2 && json_equiv x y) xs ys
  | _, _ -> cvalue_eqb want got

let is_nonfinite_scalar s = match s with
  | SNum (KFloat32, b) -> int_of_z (nonfinite_b (z_of_int 32) b) = 1
  | SNum (KFloat64, b) -> int_of_z (nonfinite_b (z_of_int 64) b) = 1
  | _ -> false

exception Refuse
(* img: strings sanitized, non-finite floats null (ignore) or refused *)
let json_img (cfg : int) (t : tree) : cvalue option =
  let ignore_inv = cfg land 2 <> 0 in
  let sc s = if is_nonfinite_scalar s then (if ignore_inv then CNil else raise Refuse)
    else match s with SStr b -> CStr (sanitize b) | _ -> cv (scalar_value s) in
  let rec go t = match t with
    | TVal (s, _) -> sc s
    | TArr (_, _, es) -> CArr (List.map go es)
    | TObj (_, _, ms) -> CObj (List.map (fun ((k, _), e) -> (sanitize k, go e)) ms)
    | TXArr (_, es) -> CArr (List.map sc es)
    | TXObj (_, ms) -> CObj (List.map (fun (k, s) -> (sanitize k, sc s)) ms) in
  try Some (go t) with Refuse -> None

let json_obs3 (r : (((event list * z) * jparser)) res) : string =
  match r with
  | Ok ((evs, err), _) -> Printf.sprintf "EV %s R %s" (toks_of_events evs) (verdict_of_err err)
  | Panic _ -> "PANIC" | OutOfFuel -> "HANG" | Err _ -> "MODELERR"

let json_fmt : fmt = {
  fname = "json";
  enc = (fun cfg failat evs ->
      match json_run (jcfg_of_int cfg) !current_ftab (jenc0 (fail_opt failat)) evs O with
      | JRun (e, fail) ->
          (w_chunks e.je_w,
           (match fail with None -> None | Some (i, cls) -> Some (if int_of_z cls = 99 then int_of_nat i else - (int_of_nat i) - 1)),
           List.length e.je_first.bs_stack)
      | JRunPanic -> ([ [ z_of_int 255 ] ], Some (-1000), -1));
  img = json_img;
  decode = (fun _ -> RMalformed);
  decode_stream = (fun _ _ -> `Stop);
  parse = (fun mode vfail chunks ->
      let r =
        if mode = "P" || mode = "S" || mode = "G" || mode = "T" then jrun_parse parse_float_oracle (fail_opt vfail) (List.concat chunks)
        else if mode = "R" || mode = "E" then jrun_chunks parse_float_oracle (fail_opt vfail) (List.filter (fun c -> c <> []) chunks)
        else jrun_chunks parse_float_oracle (fail_opt vfail) chunks in
      json_obs3 r);
  dec = (fun kind nexts script vfail ->
      let d0 =
        if kind = "B" then { jd_p = jparser0; jd_buf = List.concat (List.map fst script); jd_script = []; jd_bytesdec = true }
        else { jd_p = jparser0; jd_buf = []; jd_script = script; jd_bytesdec = false } in
      let fuel = nat_of_int (2 * script_total script + List.length script + 8) in
      dec_loop (fun d fo -> match jdec_next fuel parse_float_oracle d (sink0 fo) with
          | Ok ((d', s), err) -> Ok ((d', s_log s), err)
          | Panic w -> Panic w | OutOfFuel -> OutOfFuel | Err e -> Err e) d0 nexts vfail);
  cprop = "C04";
  idle = "0 1 0";   (* state stack empty, start state, literal buffer empty *)
  equiv = json_equiv;
  extref = true;
  hist = (fun modes docs ->
      let pf = parse_float_oracle in
      let mode_at i = if String.length modes = 1 then modes else String.make 1 modes.[i] in
      let rec go i p docs = let mode = mode_at i in match docs with
        | [] -> "?"
        | [ d ] ->
            let r = if mode = "P" then jp_parse pf p (sink0 None) d
              else (match jp_write pf p (sink0 None) d with
                  | Ok ((p1, s1), e) -> if int_of_z e = -1 then with_final pf p1 s1 else Ok ((p1, s1), e)
                  | x -> x) in
            (match r with Ok ((_, s), e) -> Printf.sprintf "EV %s R %s" (toks_of_events (s_log s)) (verdict_of_err e)
                        | Panic _ -> "PANIC" | OutOfFuel -> "HANG" | Err _ -> "MODELERR")
        | d :: rest ->
            (match (if mode = "P" then jp_parse pf p (sink0 None) d else jp_write pf p (sink0 None) d) with
             | Ok ((p1, _), _) -> go (i + 1) p1 rest
             | _ -> "HISTERR") in
      go 0 jparser0 docs);
}

(* values described by "## REF" tokens (joined with '_') *)
let ref_values (r : string) : [ `Values of cvalue list | `Err | `Range | `Skip | `Wide of cvalue list ] =
  if r = "ERR" then `Err
  else if r = "RANGE" then `Range
  else if starts_with r "WIDE_" then begin
    (* some integer literal is outside the 64-bit range: rejected, or reported as this float *)
    let evs = events_of_toks (String.split_on_char '_' (after r 5)) in
    match take_trees evs 64 with
    | Some trees -> `Wide (List.map (fun t -> cv (value_of t)) trees)
    | None -> `Skip
  end
  else if r = "BADUTF8" || r = "ADJ" then `Skip
  else if r = "EMPTY" then `Values []
  else
    let evs = events_of_toks (String.split_on_char '_' r) in
    match take_trees evs 64 with
    | Some trees -> `Values (List.map (fun t -> cv (value_of t)) trees)
    | None -> `Skip

(* signature of the recorded UBJSON finding: a typed uint64/uint container mixing values above and
   not above MaxInt64 *)
let mixed_h_event (e : event) : bool =
  let big n = ZA.gt (zt_of_z n) (ZA.of_string "9223372036854775807") in
  let mixed l = List.exists (function SNum (_, n) -> big n | _ -> false) l
                && List.exists (function SNum (_, n) -> not (big n) | _ -> false) l in
  match e with
  | EXArr ((BUint64 | BUint), es) -> mixed es
  | EXObj ((BUint64 | BUint), ms) -> mixed (List.map snd ms)
  | _ -> false
let sig_of (f_name : string) (evs : event list) : string =
  if f_name = "ubj" && List.exists mixed_h_event evs then " sig=ubj-typed-uint-mixed-H" else ""

(* ---- encoder cases ---- *)
let enc_case (f : fmt) (input : string) (obs : string) : verdict =
  let obs, flags = split_flags_all obs in
  match Str.split_delim (Str.regexp_string "|") input with
  | h :: toks :: tabseg ->
      let cfg, failat = match words h with [ c; fa ] -> (int_of_string c, int_of_string fa) | _ -> failwith "enc header" in
      let evs = events_of_toks (words toks) in
      (match tabseg with t :: _ -> current_ftab := float_table t | [] -> ());
      let chunks, idx, depth = f.enc cfg failat evs in
      let model =
        if idx = Some (-1000) then "PANIC" else
        Printf.sprintf "W %s E %s D %d" (toks_of_chunks chunks)
          (match idx with None -> "-" | Some i -> if i >= 0 then string_of_int i else string_of_int (- i - 1) ^ "!") depth in
      let oracle = ref [] in
      (match words obs with
      | "W" :: rest ->
          let ichunks, rest' = split_at "E" rest in
          let eidx = match rest' with x :: _ -> x | [] -> "?" in
          let idepth = match rest' with _ :: "D" :: d :: _ -> d | _ -> "?" in
          let out = List.concat (chunks_of_toks ichunks) in
          if failat < 0 then begin
            match take_trees evs 64 with
            | Some trees when List.for_all wf_tree trees ->
                let wants = List.map (f.img cfg) trees in
                if List.exists (fun w -> w = None) wants then begin
                  (* the stream holds something the format must refuse (JSON: non-finite float) *)
                  if eidx = "-" then oracle := ("C07", "encoder accepted a value it must refuse") :: !oracle
                end else begin
                  if eidx <> "-" then oracle := ("C07", "encoder refused a well-formed stream at event " ^ eidx) :: !oracle
                  else begin
                    let want = List.map (function Some w -> w | None -> CNil) wants in
                    let decoded =
                      if f.extref then (match find_flag "REF" flags with Some r -> (match ref_values r with `Values v -> `Values v | `Skip -> `Skip | _ -> `Bad) | None -> `Skip)
                      else (match f.decode_stream out (List.length trees + 1) with `Values v -> `Values v | _ -> `Bad) in
                    (match decoded with
                     | `Values got when List.length got = List.length want && List.for_all2 f.equiv want got -> ()
                     | `Skip -> ()
                     | _ -> oracle := ("C07", "reference decoder does not read back the stream's value" ^ sig_of f.fname evs ^ " from " ^ hex_of_bytes out) :: !oracle);
                    if f.fname = "json" then begin
                      (* C07 text predicates *)
                      if not (utf8_valid out) then oracle := ("C07", "output is not valid UTF-8") :: !oracle;
                      if List.exists (fun b -> int_of_z b < 32) out then oracle := ("C07", "raw control character in output") :: !oracle;
                      if cfg land 1 <> 0 && List.exists (fun b -> let c = int_of_z b in c = 60 || c = 62 || c = 38) out then
                        oracle := ("C07", "raw <, > or & with HTML escaping on") :: !oracle
                    end;
                    (* C17: stacks idle after complete documents *)
                    if idepth <> "0" then oracle := ("C17", "encoder length stack not idle after complete documents: " ^ idepth) :: !oracle
                  end
                end
            | _ -> ()
          end
          else begin
            let nwrites = List.length (chunks_of_toks ichunks) in
            if nwrites > failat then begin
              if eidx = "-" then oracle := ("C16", "write #" ^ string_of_int failat ^ " failed but every call returned nil") :: !oracle
              else if String.contains eidx '!' then oracle := ("C16", "returned error is not the writer's error") :: !oracle
            end
          end
      | [ "PANIC" ] | [ "HANG" ] -> oracle := ("C07", "encoder crashed: " ^ obs) :: !oracle
      | _ -> ());
      { model; oracle = !oracle }
  | _ -> failwith "enc: bad input"

let enc_case f input obs = try enc_case f input obs with Unknown_float -> { model = fst (split_flags obs); oracle = [] }

(* ---- parser cases ---- *)
let ref_oracle (f : fmt) (doc : z list) (evs : event list) (verdict : string) : (string * string) list =
  let o = ref [] in
  let dochex = let h = hex_of_bytes doc in if String.length h > 160 then String.sub h 0 160 else h in
  (if verdict = "PANIC" || verdict = "HANG" then o := ("C03", "parser " ^ verdict ^ " doc=" ^ dochex) :: !o);
  let trees_ok () = match take_trees evs 64 with
    | Some trees -> if List.for_all wf_tree trees then `Ok trees else `Ill
    | None -> `Unbalanced in
  (match f.decode_stream doc 64 with
  | `Values want ->
      if verdict <> "ok" then o := (f.cprop, "valid document refused: " ^ verdict) :: !o
      else begin
        match trees_ok () with
        | `Ok trees ->
            let got = List.map (fun t -> cv (value_of t)) trees in
            if not (List.length got = List.length want && List.for_all2 cvalue_eqb got want) then
              o := (f.cprop, "reported value differs from the reference decoder's value") :: !o
        | `Ill ->
            o := ("C09", "accepted input produced an ill-formed event stream") :: !o;
            (match take_trees evs 64 with
             | Some trees ->
                 let got = List.map (fun t -> cv (value_of t)) trees in
                 if not (List.length got = List.length want && List.for_all2 cvalue_eqb got want) then
                   o := (f.cprop, "reported value differs from the reference decoder's value") :: !o
             | None -> ())
        | `Unbalanced -> o := ("C09", "accepted input produced an unbalanced event stream") :: !o
      end
  | `Unsupported -> if verdict = "ok" then o := (f.cprop, "item outside the supported subset accepted") :: !o
  | `Truncated _ -> if verdict = "ok" then o := ("C03", "input ending inside a value accepted") :: !o
  | `Malformed ->
      if verdict = "ok" then begin
        match trees_ok () with `Ok _ -> () | _ -> o := ("C09", "accepted input produced an ill-formed event stream") :: !o
      end
  | `Stop -> ());
  !o

let ext_ref_oracle (f : fmt) (r : string) (evs : event list) (verdict : string) : (string * string) list =
  let o = ref [] in
  (if verdict = "PANIC" || verdict = "HANG" then o := ("C03", "parser " ^ verdict) :: !o);
  let trees = take_trees evs 64 in
  (match ref_values r with
   | `Values want ->
       if verdict <> "ok" then o := (f.cprop, "valid document refused: " ^ verdict) :: !o
       else begin
         match trees with
         | Some ts ->
             let got = List.map (fun t -> cv (value_of t)) ts in
             if not (List.length got = List.length want && List.for_all2 cvalue_eqb want got) then
               o := (f.cprop, "reported value differs from the reference decoder's value") :: !o;
             if not (List.for_all wf_tree ts) then o := ("C09", "accepted input produced an ill-formed event stream") :: !o
         | None -> o := ("C09", "accepted input produced an unbalanced event stream") :: !o
       end
   | `Wide want ->
       if verdict = "ok" then begin
         match trees with
         | Some ts ->
             let got = List.map (fun t -> cv (value_of t)) ts in
             if not (List.length got = List.length want && List.for_all2 cvalue_eqb want got) then
               o := (f.cprop, "an integer literal outside the 64-bit range was reported as a different number") :: !o
         | None -> o := ("C09", "accepted input produced an unbalanced event stream") :: !o
       end
   | `Err | `Range | `Skip ->
       if verdict = "ok" then begin
         match trees with
         | Some ts when List.for_all wf_tree ts -> ()
         | _ -> o := ("C09", "accepted input produced an ill-formed event stream") :: !o
       end);
  !o

(* validation of the L0 specification Json/Spec.v itself: it must agree with Go's encoding/json
   (the independent reference on the harness side) on every document both decide *)
let json_spec_check (doc : z list) (r : string) : string option =
  let spec = json_decode_all parse_float_oracle (nat_of_int 70) doc in
  match ref_values r, spec with
  | `Values want, Some got ->
      if List.length want = List.length got && List.for_all2 json_equiv want got then None
      else Some "Json/Spec.v and encoding/json assign different values"
  | `Values _, None ->
      (* encoding/json accepts: the spec must too, unless a number is outside what it decides *)
      (match json_decode parse_float_oracle doc with
       | RUnsupported -> None
       | _ -> if List.length (String.split_on_char '_' r) > 60 then None else Some "Json/Spec.v rejects a text encoding/json accepts")
  | `Err, Some _ -> Some "Json/Spec.v accepts a text encoding/json rejects"
  | _, _ -> None

let parse_case (f : fmt) (input : string) (obs0 : string) : verdict =
  let obs, flagl = split_flags_all obs0 in
  let flags = match List.filter (fun x -> starts_with x "C02 ") flagl with x :: _ -> x | [] -> "" in
  match words input with
  | mode :: vfail :: chunks ->
      let vfail = int_of_string vfail in
      let vfail = if vfail <= -2 then - vfail - 2 else vfail in   (* <= -2: the visitor fails with io.EOF as its error *)
      let chunks = chunks_of_toks chunks in
      let model = f.parse mode vfail chunks in
      let oracle = ref [] in
      let impl = strip_depth obs in
      let depth = match Str.bounded_split_delim (Str.regexp_string " D ") obs 2 with [ _; d ] -> Some d | _ -> None in
      (match words impl with
      | "EV" :: rest ->
          let toks, rest' = split_at "R" rest in
          let verdict = match rest' with v :: _ -> v | [] -> "?" in
          let evs = events_of_toks toks in
          if vfail < 0 then begin
            oracle := (if f.extref then (match find_flag "REF" flagl with Some r -> ext_ref_oracle f r evs verdict | None -> [])
                       else ref_oracle f (List.concat chunks) evs verdict);
            (match depth with
             | Some d when verdict = "ok" && mode <> "R" && mode <> "E" && mode <> "G" && mode <> "T" && not (starts_with d f.idle) ->
                 oracle := ("C17", "parser stacks not idle after complete documents: " ^ d) :: !oracle
             | _ -> ())
          end else begin
            let n = List.length evs in
            if n > vfail then begin
              if n <> vfail + 1 then oracle := ("C16", "events delivered after the visitor failed") :: !oracle;
              if verdict <> "inj" then oracle := ("C16", "visitor error not returned unchanged: " ^ verdict) :: !oracle
            end
          end
      | _ -> oracle := [ ("C03", "parser crashed: " ^ impl) ]);
      (if flags <> "" then
         match words flags with p :: m -> oracle := (p, "chunked run differs from whole-buffer run: " ^ String.concat " " m) :: !oracle | [] -> ());
      (match List.filter (fun x -> starts_with x "ALIAS ") flagl with
       | x :: _ ->
           oracle := ("C15", "a string or key delivered by value changed after delivery (it aliases a buffer that was reused): " ^ x) :: !oracle;
           (* a visitor that keeps what it is handed sees another event sequence than from a whole-buffer parse *)
           if List.length chunks > 1 then
             oracle := ("C02", "a string or key delivered by value during a chunked parse changed afterwards: " ^ x) :: !oracle
       | [] -> ());
      let model =
        if f.fname = "json" && vfail < 0 then
          (match find_flag "REF" flagl with
           | Some r -> (match (try json_spec_check (List.concat chunks) r with Unknown_float -> None) with
               | Some why -> "SPEC-MISMATCH " ^ why
               | None -> model)
           | None -> model)
        else model in
      { model = (match depth with Some d -> model ^ " D " ^ d | None -> model); oracle = !oracle }
  | _ -> failwith "parse: bad input"

let parse_case f input obs = try parse_case f input obs with Unknown_float -> { model = fst (split_flags obs); oracle = [] }

(* ---- decoder cases ---- *)
let script_of_toks ts =
  List.map
    (fun t ->
      let n = String.length t in
      if n >= 2 && String.sub t (n - 2) 2 = "+e" then (bytes_of_hex (String.sub t 0 (n - 2)), z_of_int 8)
      else (bytes_of_hex t, Z0))
    (List.filter (fun t -> t <> ".") ts)

let dec_case (f : fmt) (input : string) (obs0 : string) : verdict =
  let obs, flagl = split_flags_all obs0 in
  match words input with
  | kind :: _bufsize :: nexts :: vfail :: script ->
      let nexts = int_of_string nexts in
      let vfail = int_of_string vfail in
      let script = script_of_toks script in
      let model = f.dec kind nexts script vfail in
      let doc = List.concat (List.map fst script) in
      let oracle = ref [] in
      let calls = List.filter (fun s -> String.trim s <> "") (Str.split (Str.regexp_string " ; ") (obs ^ " ")) in
      let parse_call c = match words c with "EV" :: rest -> let toks, r = split_at "R" rest in (events_of_toks toks, (match r with v :: _ -> v | [] -> "?")) | _ -> ([], "?") in
      let calls = List.map parse_call calls in
      (if List.exists (fun (_, v) -> v = "PANIC" || v = "HANG") calls then
         oracle := ("C03", "decoder crashed or hung doc=" ^ (let h = hex_of_bytes doc in if String.length h > 160 then String.sub h 0 160 else h)) :: !oracle);
      let stream =
        if f.extref then (match find_flag "REF" flagl with
            | Some r -> (match ref_values r with `Values v -> `Values v | _ -> `Other)
            | None -> `Other)
        else (match f.decode_stream doc 64 with `Values v -> `Values v | `Truncated x -> `Truncated x | _ -> `Other) in
      (match find_flag "C16AFTER" flagl with
       | Some x -> oracle := ("C16", "after an error another Next went on with the failed stream (verdict/events): " ^ x) :: ("C03", "after an error another Next went on with the failed stream: " ^ x) :: !oracle
       | None -> ());
      (if vfail >= 0 then begin
         let total = List.fold_left (fun a (evs, _) -> a + List.length evs) 0 calls in
         if total > vfail + 1 then oracle := ("C16", "the decoder delivered events after the visitor failed") :: !oracle;
         (match List.rev calls with
          | (_, v) :: _ when total = vfail + 1 && v <> "inj" ->
              oracle := ("C16", "the visitor failed on the last event delivered but Next returned " ^ v) :: !oracle
          | _ -> ())
       end);
      (match (if vfail >= 0 then `Other else stream) with
      | `Values want ->
          let k = List.length want in
          if nexts > k then begin
            if List.length calls <> k + 1 then oracle := ("C18", Printf.sprintf "%d values but %d calls made progress" k (List.length calls)) :: !oracle
            else List.iteri (fun i (evs, v) ->
                if i < k then begin
                  if v <> "ok" then oracle := ("C18", Printf.sprintf "Next #%d returned %s" i v) :: !oracle
                  else match stream_tree evs with
                    | Some t when cvalue_eqb (cv (value_of t)) (List.nth want i) -> ()
                    | _ -> oracle := ("C18", Printf.sprintf "Next #%d did not deliver exactly value #%d" i i) :: !oracle
                end else if v <> "eof" then oracle := ("C18", "no io.EOF after the last value: " ^ v) :: !oracle) calls
          end
      | `Truncated _ ->
          (match List.rev calls with
           | (_, "eof") :: _ -> oracle := ("C18", "stream ending inside a value reported as clean io.EOF") :: !oracle
           | _ -> ())
      | _ -> ());
      { model; oracle = !oracle }
  | _ -> failwith "dec: bad input"

let dec_case f input obs = try dec_case f input obs with Unknown_float -> { model = fst (split_flags obs); oracle = [] }


(* ---- C01: encode then parse ---- *)
let rt_case (f : fmt) (input : string) (obs0 : string) : verdict =
  let obs, _ = split_flags_all obs0 in
  match Str.split_delim (Str.regexp_string "|") input with
  | h :: toks :: tabseg ->
      let cfg = int_of_string (String.trim h) in
      let evs = events_of_toks (words toks) in
      (match tabseg with t :: _ -> current_ftab := float_table t | [] -> ());
      let chunks, idx, _ = f.enc cfg (-1) evs in
      let bytes = List.concat chunks in
      let model =
        match idx with
        | Some i -> Printf.sprintf "B %s E %s" (hex_of_bytes bytes) (if i >= 0 then string_of_int i else string_of_int (- i - 1) ^ "!")
        | None -> Printf.sprintf "B %s E - %s" (hex_of_bytes bytes) (f.parse "P" (-1) [ bytes ]) in
      let oracle = ref [] in
      (match take_trees evs 64 with
       | Some trees when List.for_all wf_tree trees ->
           let wants = List.map (f.img cfg) trees in
           let refused = List.exists (fun w -> w = None) wants in
           (match words obs with
            | "B" :: _ :: "E" :: e :: rest ->
                if refused then begin
                  if e = "-" then oracle := ("C01", "a value the format must refuse was encoded") :: !oracle
                end
                else if e <> "-" then oracle := ("C01", "encoder refused a well-formed stream") :: !oracle
                else begin
                  match rest with
                  | "EV" :: r2 ->
                      let toks, r3 = split_at "R" r2 in
                      let verdict = match r3 with v :: _ -> v | [] -> "?" in
                      if verdict <> "ok" then oracle := ("C01", "own parser refuses the encoder's output: " ^ verdict) :: !oracle
                      else begin
                        let want = List.map (function Some w -> w | None -> CNil) wants in
                        match take_trees (events_of_toks toks) 64 with
                        | Some ts ->
                            let got = List.map (fun t -> cv (value_of t)) ts in
                            if not (List.length got = List.length want && List.for_all2 f.equiv want got) then
                              oracle := ("C01", "decoded value differs from the encoded value" ^ sig_of f.fname evs) :: !oracle
                        | None -> oracle := ("C01", "parser output is not a well-formed stream") :: !oracle
                      end
                  | _ -> oracle := ("C01", "round trip crashed: " ^ obs) :: !oracle
                end
            | _ -> oracle := ("C01", "round trip crashed: " ^ obs) :: !oracle)
       | _ -> ());
      { model; oracle = !oracle }
  | _ -> failwith "rt: bad input"
let rt_case f input obs = try rt_case f input obs with Unknown_float -> { model = fst (split_flags obs); oracle = [] }

(* ---- C08: transcoding ---- *)
let rec ubj_img_c (v : cvalue) : cvalue =
  match v with
  | CNum (CInt n) when ZA.gt (zt_of_z n) (ZA.of_string "9223372036854775807") ->
      CStr (List.map (fun c -> z_of_int (Char.code c)) (List.of_seq (String.to_seq (string_of_z n))))
  | CArr vs -> CArr (List.map ubj_img_c vs)
  | CObj kvs -> CObj (List.map (fun (k, x) -> (k, ubj_img_c x)) kvs)
  | _ -> v

let rec json_img_c (ignore_inv : bool) (v : cvalue) : cvalue =
  match v with
  | CStr s -> CStr (sanitize s)
  | CNum (CF64 b) when int_of_z (nonfinite_b (z_of_int 64) b) = 1 -> if ignore_inv then CNil else raise Refuse
  | CNum (CF32 b) when int_of_z (nonfinite_b (z_of_int 32) b) = 1 -> if ignore_inv then CNil else raise Refuse
  | CArr vs -> CArr (List.map (json_img_c ignore_inv) vs)
  | CObj kvs -> CObj (List.map (fun (k, x) -> (sanitize k, json_img_c ignore_inv x)) kvs)
  | _ -> v

let img_c (dst : string) (cfg : int) (v : cvalue) : cvalue option =
  if dst = "ubj" then Some (ubj_img_c v)
  else if dst = "json" then (try Some (json_img_c (cfg land 2 <> 0) v) with Refuse -> None)
  else Some v

let fmt_by_name n = List.find (fun f -> f.fname = n) !all_fmts

let xc_case (input : string) (obs0 : string) : verdict =
  let obs, flags = split_flags_all obs0 in
  let segs = Str.split_delim (Str.regexp_string "|") input in
  (match segs with _ :: t :: _ -> current_ftab := float_table t | _ -> ());
  match words (List.hd segs) with
  | sn :: dn :: cfg :: chunks ->
      let src = fmt_by_name sn and dst = fmt_by_name dn in
      let cfg = int_of_string cfg in
      let chunks = chunks_of_toks chunks in
      let doc = List.concat chunks in
      (* model: events of the source parser fed to the target encoder *)
      let pobs = src.parse "W" (-1) chunks in
      let model =
        match words pobs with
        | "EV" :: rest ->
            let toks, r = split_at "R" rest in
            let pverdict = match r with v :: _ -> v | [] -> "?" in
            (* the parser delivers by-reference strings through MakeStringRefVisitor; encoders accept them *)
            let evs = events_of_toks toks in
            let och, idx, _ = dst.enc cfg (-1) evs in
            Printf.sprintf "B %s R %s" (hex_of_bytes (List.concat och)) (if idx <> None then "err" else pverdict)
        | _ -> pobs in
      let depth = match Str.bounded_split_delim (Str.regexp_string " D ") obs 2 with [ _; d ] -> " D " ^ d | _ -> "" in
      let oracle = ref [] in
      (match words obs with
       | "B" :: out :: "R" :: verdict :: _ ->
           let out = bytes_of_hex out in
           let sref =
             if src.extref then (match find_flag "SREF" flags with Some r -> (match ref_values r with `Values v -> `Values v | _ -> `Other) | None -> `Other)
             else (match src.decode_stream doc 64 with `Values v -> `Values v | _ -> `Other) in
           (match sref with
            | `Values svals ->
                let wants = List.map (img_c dn cfg) svals in
                if List.exists (fun w -> w = None) wants then begin
                  if verdict = "ok" then oracle := ("C08", "a value the target format must refuse was transcoded") :: !oracle
                end
                else if verdict <> "ok" then oracle := ("C08", "valid source document not transcoded: " ^ verdict) :: !oracle
                else begin
                  let want = List.map (function Some w -> w | None -> CNil) wants in
                  let dref =
                    if dst.extref then (match find_flag "DREF" flags with Some r -> (match ref_values r with `Values v -> `Values v | `Skip -> `Skip | _ -> `Bad) | None -> `Skip)
                    else (match dst.decode_stream out 64 with `Values v -> `Values v | _ -> `Bad) in
                  (match dref with
                   | `Values got when List.length got = List.length want && List.for_all2 dst.equiv want got -> ()
                   | `Skip -> ()
                   | _ -> oracle := ("C08", "target document does not have the source's value: " ^ hex_of_bytes out) :: !oracle);
                  if depth <> " D 0" && depth <> "" then oracle := ("C17", "encoder stack not idle after transcoding complete documents") :: !oracle
                end
            | `Other -> ());
           if verdict = "PANIC" || verdict = "HANG" then oracle := ("C08", "transcoding crashed") :: !oracle
       | _ -> oracle := ("C08", "transcoding crashed: " ^ obs) :: !oracle);
      { model = model ^ depth; oracle = !oracle }
  | _ -> failwith "xc: bad input"
let xc_case input obs = try xc_case input obs with Unknown_float -> { model = fst (split_flags obs); oracle = [] }

(* ---- C10: extended event vs expansion ---- *)
let x10_case (f : fmt) (input : string) (obs0 : string) : verdict =
  let obs, flags = split_flags_all obs0 in
  match Str.split_delim (Str.regexp_string "|") input with
  | h :: pre :: x :: suf :: tabseg ->
      let cfg = int_of_string (String.trim h) in
      let pre = events_of_toks (words pre) and suf = events_of_toks (words suf) in
      let x = match events_of_toks (words x) with [ e ] -> e | _ -> failwith "x10: one event" in
      (match tabseg with t :: _ -> current_ftab := float_table t | [] -> ());
      let one mid =
        let ch, idx, depth = f.enc cfg (-1) (pre @ mid @ suf) in
        Printf.sprintf "%s %d E %s" (hex_of_bytes (List.concat ch)) depth (if idx = None then "-" else "err") in
      let model = "A " ^ one [ x ] ^ " B " ^ one (expand x) in
      let oracle = ref [] in
      (match words obs with
       | [ "A"; ha; da; "E"; ea; "B"; hb; db; "E"; eb ] ->
           if da <> db then oracle := ("C10", "consumer left in a different state: depth " ^ da ^ " vs " ^ db) :: !oracle;
           if ea <> eb then oracle := ("C10", "extended event and expansion differ in success") :: !oracle
           else if ea = "-" then begin
             let dec h key =
               if f.extref then (match find_flag key flags with Some r -> (match ref_values r with `Values v -> `Values v | `Skip -> `Skip | _ -> `Bad) | None -> `Skip)
               else (match f.decode_stream (bytes_of_hex h) 64 with `Values v -> `Values v | _ -> `Bad) in
             match dec ha "AREF", dec hb "BREF" with
             | `Values a, `Values b ->
                 if not (List.length a = List.length b && List.for_all2 cvalue_eqb a b) then
                   oracle := ("C10", "extended event and its expansion decode to different values" ^ sig_of f.fname [ x ]) :: !oracle
             | `Skip, _ | _, `Skip -> ()
             | `Bad, _ -> oracle := ("C10", "document written with the extended event is invalid") :: !oracle
             | _, `Bad -> oracle := ("C10", "document written with the expansion is invalid") :: !oracle
           end
       | _ -> oracle := ("C10", "encoder crashed: " ^ obs) :: !oracle);
      { model; oracle = !oracle }
  | _ -> failwith "x10: bad input"
let x10_case f input obs = try x10_case f input obs with Unknown_float -> { model = fst (split_flags obs); oracle = [] }

(* ---- C17: histories on one parser ---- *)
let hist_case (f : fmt) (input : string) (obs0 : string) : verdict =
  let obs, flags = split_flags_all obs0 in
  if obs = "HISTERR" then { model = obs; oracle = [] } else
  match words input with
  | mode :: docs ->
      let docs = chunks_of_toks docs in
      let model = f.hist mode docs in
      let depth = match Str.bounded_split_delim (Str.regexp_string " D ") obs 2 with [ _; d ] -> " D " ^ d | _ -> "" in
      let oracle = ref [] in
      (match List.filter (fun x -> starts_with x "C17 ") flags with
       | x :: _ ->
           oracle := ("C17", "reused parser differs from a fresh one on the probe document: " ^ x) :: !oracle;
           (* the probe written in pieces must give what the whole-buffer parse of a new parser gives *)
           if String.length mode > 0 && mode.[String.length mode - 1] = 'W' then
             oracle := ("C02", "a document written in pieces to a parser that has parsed before differs from its whole-buffer parse: " ^ x) :: !oracle
       | [] -> ());
      { model = model ^ depth; oracle = !oracle }
  | _ -> failwith "hist: bad input"
let hist_case f input obs = try hist_case f input obs with Unknown_float -> { model = fst (split_flags obs); oracle = [] }

(* ---- adapters ---- *)
let adapt_case (input : string) (obs : string) : verdict =
  match Str.bounded_split_delim (Str.regexp_string "|") input 2 with
  | [ h; x ] ->
      let failat = int_of_string (String.trim h) in
      let x = match events_of_toks (words x) with [ e ] -> e | _ -> failwith "adapt: one event" in
      let s, ok = adapter (sink0 (fail_opt failat)) x in
      let model = Printf.sprintf "EV %s E %s" (toks_of_events (s_log s)) (if ok then "ok" else "inj") in
      let oracle = ref [] in
      (match words obs with
       | "EV" :: rest ->
           let toks, r = split_at "E" rest in
           let v = match r with v :: _ -> v | [] -> "?" in
           let evs = events_of_toks toks in
           let ex = expand x in
           if failat < 0 || failat >= List.length ex then begin
             if evs <> ex then oracle := ("C10", "wrapped plain visitor did not receive the expansion") :: !oracle;
             if v <> "ok" then oracle := ("C10", "adapter failed without a visitor error") :: !oracle;
             (match x with
              | EXArr _ | EXObj _ -> if not (contract_ok evs) then oracle := ("C09", "adapter emitted an ill-formed stream") :: !oracle
              | _ -> ())
           end else begin
             if List.length evs <> failat + 1 then oracle := ("C16", "adapter delivered events after the visitor failed") :: !oracle;
             if v <> "inj" then oracle := ("C16", "adapter did not return the visitor's error: " ^ v) :: !oracle
           end
       | _ -> oracle := ("C10", "adapter crashed: " ^ obs) :: !oracle);
      { model; oracle = !oracle }
  | _ -> failwith "adapt: bad input"

(* ---- visitors.ExpectObjVisitor (the inline filter) ---- *)
let expobj_case (input : string) (obs : string) : verdict =
  match Str.bounded_split_delim (Str.regexp_string "|") input 2 with
  | [ h; x ] ->
      let failat = int_of_string (String.trim h) in
      let evs = events_of_toks (words x) in
      let (log, err), fin = eo_observe (fail_opt failat) evs in
      let model = Printf.sprintf "EV %s E %s DONE %d" (toks_of_events log)
          (match err with EoNone -> "none" | EoTarget -> "target" | EoNotObject -> "notobj") (if fin then 1 else 0) in
      let oracle = ref [] in
      (match words obs with
       | "EV" :: rest ->
           let toks, r = split_at "E" rest in
           let got = events_of_toks toks in
           let v = match r with v :: _ -> v | [] -> "?" in
           (* a single well-formed object in, no failure: its members out, and they are members of a well-formed object *)
           (match evs with
            | EObjStart (n, bt) :: _ when failat < 0 && contract_ok evs ->
                if v <> "none" then oracle := ("C09", "the inline filter refused a well-formed object: " ^ v) :: !oracle
                else if not (contract_ok (EObjStart (z_of_int (-1), bt) :: got @ [ EObjEnd ])) then
                  oracle := ("C09", "the inline filter forwarded something that is not a sequence of members") :: !oracle
            | _ -> ());
           if failat >= 0 && List.length got > failat + 1 then
             oracle := ("C16", "the inline filter delivered events after the visitor failed") :: !oracle;
           if failat >= 0 && List.length got = failat + 1 && v <> "target" then
             oracle := ("C16", "the inline filter did not return the visitor's error: " ^ v) :: !oracle
       | _ -> oracle := ("C09", "the inline filter crashed: " ^ obs) :: !oracle);
      { model; oracle = !oracle }
  | _ -> failwith "expobj: bad input"

(* ---- C02: all cut sets of a short document ---- *)
let cut_chunks (doc : z list) (mask : int) : z list list =
  let n = List.length doc in
  let arr = Array.of_list doc in
  let cs = ref [] and start = ref 0 in
  for i = 1 to n - 1 do
    if mask land (1 lsl (i - 1)) <> 0 then begin
      cs := Array.to_list (Array.sub arr !start (i - !start)) :: !cs;
      start := i
    end
  done;
  cs := Array.to_list (Array.sub arr !start (n - !start)) :: !cs;
  List.rev !cs

let ends_with s suf = let n = String.length s and m = String.length suf in n >= m && String.sub s (n - m) m = suf

let cut_obs (o : string) : string =
  if ends_with o " R ok" then o
  else if contains o "HANG" then "EV . R HANG"
  else if contains o "PANIC" then "EV . R PANIC"
  else "EV . R err"

let cuts_case (f : fmt) (input : string) (obs0 : string) : verdict =
  let obs, _ = split_flags_all obs0 in
  match words input with
  | [ _max; dochex ] ->
      let doc = bytes_of_hex dochex in
      let whole = cut_obs (f.parse "P" (-1) [ doc ]) in
      let n = List.length doc in
      let count = ref 0 in
      let diff = ref None in
      if not (ends_with whole "HANG" || ends_with whole "PANIC") && n > 0 then begin
        let masks = 1 lsl (n - 1) in
        (try
           for m = 0 to masks - 1 do
             let cs = cut_chunks doc m in
             List.iter (fun mode ->
                 if not (mode = "R" && m mod 3 <> 0 && n > 6) then begin
                   let o = cut_obs (f.parse mode (-1) cs) in
                   incr count;
                   if o <> whole then begin diff := Some (Printf.sprintf "DIFF %s %d %s" mode m o); raise Exit end
                 end) [ "W"; "R" ]
           done;
           let cs = List.concat_map (fun b -> [ []; [ b ] ]) doc @ [ [] ] in
           let o = cut_obs (f.parse "W" (-1) cs) in
           incr count;
           if o <> whole then diff := Some (Printf.sprintf "DIFF E 0 %s" o)
         with Exit -> ())
      end;
      let model = match !diff with
        | Some d -> Printf.sprintf "WHOLE %s %s" whole d
        | None -> Printf.sprintf "WHOLE %s ALL %d" whole !count in
      let oracle = ref [] in
      (if contains obs " DIFF " then oracle := ("C02", "a chunking of the document differs from the whole-buffer parse: " ^ obs) :: !oracle);
      (if contains obs "HANG" || contains obs "PANIC" then oracle := ("C03", "parser crashed or hung doc=" ^ dochex) :: !oracle);
      { model; oracle = !oracle }
  | _ -> failwith "cuts: bad input"
let cuts_case f input obs = try cuts_case f input obs with Unknown_float -> { model = fst (split_flags obs); oracle = [] }

(* ---------- gotype: types and values (same text format as harness/gotypes.go) ---------- *)
let rec parse_gtype (ts : string list) : gtype * string list =
  match ts with
  | "b" :: r -> (TBool, r)
  | "s" :: r -> (TString, r)
  | "any" :: r -> (TIface, r)
  | "X" :: r -> (TUnsup, r)
  | "P" :: r -> let t, r = parse_gtype r in (TPtr t, r)
  | "L" :: r -> let t, r = parse_gtype r in (TSlice t, r)
  | "A" :: n :: r -> let t, r = parse_gtype r in (TArray (z_of_string n, t), r)
  | "M" :: r -> let t, r = parse_gtype r in (TMap t, r)
  | "MK" :: r -> let t, r = parse_gtype r in (TMapK t, r)
  | "N" :: r -> let t, r = parse_gtype r in (TNamed t, r)
  | "S" :: n :: r ->
      let rec fields k r acc =
        if k = 0 then (List.rev acc, r)
        else match r with
          | name :: tag :: r' ->
              let t, r'' = parse_gtype r' in
              fields (k - 1) r'' (((bytes_of_hex name, bytes_of_hex tag), t) :: acc)
          | _ -> failwith "gtype: struct field" in
      let fs, r = fields (int_of_string n) r [] in
      (TStruct fs, r)
  | k :: r when List.mem_assoc k nkinds -> (TNum (List.assoc k nkinds), r)
  | t :: _ -> failwith ("gtype: bad token " ^ t)
  | [] -> failwith "gtype: empty"

let rec parse_gvalue (t : gtype) (ts : string list) : gvalue * string list =
  let list_of u n r =
    let rec go k r acc = if k = 0 then (List.rev acc, r) else let v, r' = parse_gvalue u r in go (k - 1) r' (v :: acc) in
    go (int_of_string n) r [] in
  match (match t with TNamed u -> u | _ -> t), ts with
  | TBool, "t" :: r -> (GBool true, r)
  | TBool, "f" :: r -> (GBool false, r)
  | TString, tok :: r -> (GStr (bytes_of_hex (after tok 2)), r)
  | TNum _, tok :: r -> (GNum (z_of_string tok), r)
  | _, "nil" :: r -> (GNil, r)
  | TIface, "I" :: r -> let dt, r = parse_gtype r in let v, r = parse_gvalue dt r in (GIface (dt, v), r)
  | TPtr u, "&" :: r -> let v, r = parse_gvalue u r in (GPtr v, r)
  | (TSlice u | TArray (_, u)), "[" :: n :: r -> let l, r = list_of u n r in (GList l, r)
  | (TMap u | TMapK u), "{" :: n :: r ->
      let rec go k r acc =
        if k = 0 then (List.rev acc, r)
        else match r with
          | key :: r' -> let v, r'' = parse_gvalue u r' in go (k - 1) r'' ((bytes_of_hex key, v) :: acc)
          | [] -> failwith "gvalue: map" in
      let l, r = go (int_of_string n) r [] in
      (GMap l, r)
  | TStruct fs, "(" :: _ :: r ->
      let rec go fs r acc = match fs with
        | [] -> (List.rev acc, r)
        | (_, ft) :: fr -> let v, r' = parse_gvalue ft r in go fr r' (v :: acc) in
      let l, r = go fs r [] in
      (GStruct l, r)
  | _, tok :: _ -> failwith ("gvalue: bad token " ^ tok)
  | _, [] -> failwith "gvalue: empty"

let typed_value (tseg : string) (vseg : string) : gtype * gvalue =
  let t, _ = parse_gtype (words tseg) in
  let v, _ = parse_gvalue t (words vseg) in
  (t, v)

(* events as a multiset of tokens (comparison modulo map iteration order) *)
let sorted_toks (evs : event list) : string list = List.sort compare (List.map tok_of_event evs)

let obs_events (obs : string) : (event list * string) option =
  match words obs with
  | "EV" :: rest -> let toks, r = split_at "R" rest in Some (events_of_toks toks, (match r with v :: _ -> v | [] -> "?"))
  | _ -> None

let rec sort_cv (v : cvalue) : cvalue =
  match v with
  | CArr l -> CArr (List.map sort_cv l)
  | CObj ms -> CObj (List.stable_sort (fun (a, _) (b, _) -> compare (hex_of_bytes a) (hex_of_bytes b)) (List.map (fun (k, x) -> (k, sort_cv x)) ms))
  | _ -> v

(* ---- fold cases ---- *)
let fold_case (input : string) (obs0 : string) : verdict =
  let obs, _ = split_flags_all obs0 in
  match Str.split_delim (Str.regexp_string "|") input with
  | [ h; tseg; vseg ] ->
      let mode, failat, multi = match words h with [ m; f; mu ] -> (m, int_of_string f, mu = "1") | _ -> failwith "fold header" in
      let t, v = typed_value tseg vseg in
      let evs, err = fold_value t v in
      let evs = if mode = "P" then List.concat_map expand evs else evs in
      let s, ok = emit_all (sink0 (fail_opt failat)) evs in
      let delivered = s_log s in
      let verdict = if not ok then "inj" else match err with None -> "ok" | Some _ -> "err" in
      let model = Printf.sprintf "EV %s R %s" (toks_of_events delivered) verdict in
      let oracle = ref [] in
      let model =
        match obs_events obs with
        | Some (ievs, iv) ->
            (* direct oracles on what the implementation delivered *)
            if failat < 0 && iv = "ok" then begin
              match take_trees ievs 4 with
              | Some [ tr ] -> if not (wf_tree tr) then oracle := ("C09", "Fold emitted an ill-formed event stream") :: !oracle
              | _ -> oracle := ("C09", "Fold emitted an unbalanced event stream") :: !oracle
            end;
            (* C12 / C11: the documented mapping (Gotype/FoldSpec.v) *)
            if failat < 0 && iv <> "PANIC" && iv <> "HANG" then begin
              let fuel = nat_of_int 400 in
              let want = if spec_supported fuel t then spec_fold fuel t v else None in
              match want with
              | None -> if iv = "ok" then oracle := ("C11", "a value of an unsupported type or shape was folded without an error") :: !oracle
              | Some w ->
                  if iv <> "ok" then oracle := ("C12", "a supported value was refused: " ^ iv) :: !oracle
                  else begin
                    match take_trees ievs 4 with
                    | Some [ tr ] ->
                        let got = cv (value_of tr) in
                        let same = if multi then cvalue_eqb (sort_cv got) (sort_cv w) else cvalue_eqb got w in
                        if not same then oracle := ("C12", "folded value differs from the documented mapping") :: !oracle
                    | _ -> ()
                  end
            end;
            if failat >= 0 && List.length ievs > failat then begin
              if List.length ievs <> failat + 1 then oracle := ("C16", "Fold delivered events after the visitor failed") :: !oracle;
              if iv <> "inj" then oracle := ("C16", "Fold did not return the visitor's error: " ^ iv) :: !oracle
            end;
            if iv = "PANIC" || iv = "HANG" then oracle := ("C11", "Fold crashed: " ^ iv) :: !oracle;
            (* correspondence modulo map iteration order *)
            (* with several map entries the iteration order decides which events precede an error
               or an injected failure: only complete runs are compared, as multisets *)
            if multi && iv <> "PANIC" && iv <> "HANG" &&
               (if verdict = "ok" && iv = "ok" then sorted_toks ievs = sorted_toks delivered
                else verdict <> "ok" || iv <> "ok" && failat >= 0) then obs else model
        | None -> oracle := ("C11", "Fold crashed: " ^ obs) :: !oracle; model in
      { model; oracle = !oracle }
  | _ -> failwith "fold: bad input"

(* ---- gotype values back to text ---- *)
let hexk (b : z list) : string = hex_of_bytes b
let rec gtype_tok (t : gtype) : string =
  match t with
  | TBool -> "b" | TString -> "s" | TIface -> "any" | TUnsup -> "X"
  | TNum k -> nkind_name k
  | TPtr u -> "P " ^ gtype_tok u
  | TSlice u -> "L " ^ gtype_tok u
  | TArray (n, u) -> "A " ^ string_of_z n ^ " " ^ gtype_tok u
  | TMap u -> "M " ^ gtype_tok u
  | TMapK u -> "MK " ^ gtype_tok u
  | TNamed u -> "N " ^ gtype_tok u
  | TStruct fs ->
      String.concat " " (("S " ^ string_of_int (List.length fs)) ::
                         List.map (fun ((name, tag), ft) -> hexk name ^ " " ^ hexk tag ^ " " ^ gtype_tok ft) fs)

let rec gvalue_tok (t : gtype) (v : gvalue) : string =
  let t = match t with TNamed u -> u | _ -> t in
  match t, v with
  | _, GBool true -> "t"
  | _, GBool false -> "f"
  | _, GStr s -> "s:" ^ hex_of_bytes s
  | _, GNum z -> string_of_z z
  | _, GNil -> "nil"
  | _, GIface (dt, dv) -> "I " ^ gtype_tok dt ^ " " ^ gvalue_tok dt dv
  | TPtr u, GPtr x -> "& " ^ gvalue_tok u x
  | (TSlice u | TArray (_, u)), GList l ->
      String.concat " " (("[ " ^ string_of_int (List.length l)) :: List.map (gvalue_tok u) l)
  | (TMap u | TMapK u), GMap kvs ->
      String.concat " " (("{ " ^ string_of_int (List.length kvs)) :: List.map (fun (k, x) -> hexk k ^ " " ^ gvalue_tok u x) kvs)
  | TStruct fs, GStruct vs ->
      let rec go fs vs = match fs, vs with
        | (_, ft) :: fr, x :: vr -> gvalue_tok ft x :: go fr vr
        | _, _ -> [] in
      String.concat " " (("( " ^ string_of_int (List.length vs)) :: go fs vs)
  | _, _ -> "?"

(* float -> integer conversions outside the target's range are implementation-defined in Go *)
let rec has_int_kind (t : gtype) : bool =
  match t with
  | TNum (KFloat32 | KFloat64) -> false
  | TNum _ -> true
  | TPtr u | TSlice u | TArray (_, u) | TMap u | TMapK u | TNamed u -> has_int_kind u
  | TStruct fs -> List.exists (fun (_, ft) -> has_int_kind ft) fs
  | _ -> false
let rec scalars_of_event (e : event) : scalar list =
  match e with
  | EVal s -> [ s ]
  | EXArr (_, l) -> l
  | EXObj (_, ms) -> List.map snd ms
  | _ -> []
(* the integer kinds a target type can store a number in *)
let rec int_kinds (t : gtype) : nkind list =
  match t with
  | TNum (KFloat32 | KFloat64) -> []
  | TNum k -> [ k ]
  | TPtr u | TSlice u | TArray (_, u) | TMap u | TMapK u | TNamed u -> int_kinds u
  | TStruct fs -> List.concat_map (fun (_, ft) -> int_kinds ft) fs
  | _ -> []
(* some float of the stream is outside the range of some integer kind of the target: Go leaves the
   result of that conversion to the implementation, so the case is not compared *)
let risky_float_for (t : gtype) (evs : event list) : bool =
  let ks = List.sort_uniq compare (int_kinds t) in
  ks <> [] &&
  List.exists (fun e -> List.exists (function
      | SNum ((KFloat32 | KFloat64) as k, z) -> List.exists (fun dst -> not (conv_defined k dst z)) ks
      | _ -> false) (scalars_of_event e)) evs

(* ---- unfold cases ---- *)
let unfold_case (input : string) (obs0 : string) : verdict =
  let obs, _ = split_flags_all obs0 in
  match Str.split_delim (Str.regexp_string "|") input with
  | [ _cache; tseg; oseg; eseg ] ->
      let t, _ = parse_gtype (words tseg) in
      let old = if String.trim oseg = "zero" then zero_of t else fst (parse_gvalue t (words oseg)) in
      let evs = events_of_toks (words eseg) in
      let model =
        match unfold_value t old evs with
        | USetupErr _ -> "SETUPERR"
        | UDone v -> "R ok V " ^ gvalue_tok t v
        | UMore -> "R more"
        | UFail _ -> "R err" in
      let impl = strip_depth obs in
      let depth = match Str.bounded_split_delim (Str.regexp_string " D ") obs 2 with [ _; d ] -> Some d | _ -> None in
      let oracle = ref [] in
      (if impl = "PANIC" || impl = "HANG" then oracle := ("C14", "unfolder crashed or hung: " ^ impl) :: !oracle);
      (match depth with
       | Some d when starts_with impl "R ok" && d <> "0,0,0,0,0,0,0,0,0" ->
           oracle := ("C17", "unfolder stacks not idle after a complete document: " ^ d) :: !oracle
       | _ -> ());
      (* C13, first sentence, directly against the L0 definition: an interface{} target holds the stream's value *)
      (match t, stream_tree evs with
       | TIface, Some tr when wf_tree tr && impl <> "PANIC" && impl <> "HANG" ->
           let want = "R ok V " ^ gvalue_tok t (generic tr) in
           if impl <> want then
             oracle := ("C13", "interface{} target does not hold the stream's value: want " ^ want) :: !oracle
       | _ -> ());
      let model = if risky_float_for t evs && impl <> "PANIC" && impl <> "HANG" then impl else model in
      { model = (match depth with Some d -> model ^ " D " ^ d | None -> model); oracle = !oracle }
  | _ -> failwith "unfold: bad input"

(* ---- C11: fold then unfold ---- *)
let rec gv_exists (p : gtype -> gvalue -> bool) (t : gtype) (v : gvalue) : bool =
  p t v ||
  (match (match t with TNamed u -> u | _ -> t), v with
   | TPtr u, GPtr x -> gv_exists p u x
   | TIface, GIface (dt, dv) -> gv_exists p dt dv
   | (TSlice u | TArray (_, u)), GList l -> List.exists (gv_exists p u) l
   | (TMap u | TMapK u), GMap kvs -> List.exists (fun (_, x) -> gv_exists p u x) kvs
   | TStruct fs, GStruct vs ->
       let rec go fs vs = match fs, vs with
         | (_, ft) :: fr, x :: vr -> gv_exists p ft x || go fr vr
         | _, _ -> false in
       go fs vs
   | _, _ -> false)

let max_int64_z = ZA.of_string "9223372036854775807"
let has_big_uint t v = gv_exists (fun t v -> match t, v with
    | (TNum (KUint64 | KUint) | TNamed (TNum (KUint64 | KUint))), GNum z -> ZA.gt (zt_of_z z) max_int64_z | _ -> false) t v
let has_bad_utf8 t v = gv_exists (fun _ v -> match v with
    | GStr s -> not (utf8_valid s)
    | GMap kvs -> List.exists (fun (k, _) -> not (utf8_valid k)) kvs
    | _ -> false) t v
let has_iface_float t v = gv_exists (fun t v -> match t, v with
    | TIface, GIface (dt, dv) -> gv_exists (fun t _ -> match t with TNum (KFloat32 | KFloat64) | TNamed (TNum (KFloat32 | KFloat64)) -> true | _ -> false) dt dv
    | _ -> false) t v
let has_neg_zero t v = gv_exists (fun t v -> match t, v with
    | (TNum KFloat64 | TNamed (TNum KFloat64)), GNum z -> ZA.equal (zt_of_z z) (ZA.shift_left ZA.one 63)
    | TNum KFloat32, GNum z -> ZA.equal (zt_of_z z) (ZA.shift_left ZA.one 31)
    | _ -> false) t v

let rtgo_case (input : string) (obs0 : string) : verdict =
  let obs, _ = split_flags_all obs0 in
  match Str.split_delim (Str.regexp_string "|") input with
  | [ h; tseg; vseg ] ->
      let route, _multi = match words h with [ r; m ] -> (r, m = "1") | _ -> failwith "rtgo header" in
      let t, v = typed_value tseg vseg in
      let fuel = nat_of_int 400 in
      let model =
        if route <> "direct" then obs
        else match ucc_type t with
          | Some _ -> "SETUPERR"
          | None ->
              let evs, err = fold_value t v in
              (match err with
               | Some _ -> "R err"
               | None -> (match unfold_value t (zero_of t) evs with
                   | UDone v' -> "R ok V " ^ gvalue_tok t v'
                   | _ -> "R err")) in
      let oracle = ref [] in
      (if obs = "PANIC" || obs = "HANG" then oracle := ("C11", "fold/unfold crashed: " ^ obs) :: !oracle
       else begin
         let supported = spec_supported fuel t && ucc_type t = None in
         match (if supported then spec_fold fuel t v else None) with
         | None -> ()        (* refused with an error or not: nothing to reproduce *)
         | Some _ ->
             let skip = (route = "json" && (has_bad_utf8 t v || has_iface_float t v || has_neg_zero t v)) in
             if not skip then begin
               if starts_with obs "R ok V " then begin
                 let v', _ = parse_gvalue t (words (after obs 7)) in
                 if not (deep_eq fuel t (omit_view fuel t v) v') then
                   oracle := ("C11", "the unfolded value differs from the folded one" ^
                                     (if route = "ubj" && has_big_uint t v then " sig=ubj-uint-above-maxint64" else "")) :: !oracle
               end else
                 oracle := ("C11", "a supported value was refused (" ^ obs ^ ")" ^
                                   (if route = "ubj" && has_big_uint t v then " sig=ubj-uint-above-maxint64" else "")) :: !oracle
             end
       end);
      { model; oracle = !oracle }
  | _ -> failwith "rtgo: bad input"

(* ---- C17: reused iterator / unfolder ---- *)
let c17_flag (flags : string list) (what : string) : (string * string) list =
  match List.filter (fun x -> starts_with x "C17 ") flags with
  | x :: _ -> [ ("C17", what ^ ": " ^ x) ]
  | [] -> []

let histfold_case (input : string) (obs0 : string) : verdict =
  let obs, flags = split_flags_all obs0 in
  let segs = List.map String.trim (Str.split_delim (Str.regexp_string ";") input) in
  match segs with
  | h :: items when items <> [] ->
      let multi = match words h with [ _; m ] -> m = "1" | _ -> false in
      let last = List.nth items (List.length items - 1) in
      (match Str.split_delim (Str.regexp_string "|") last with
       | [ tseg; vseg ] ->
           let t, v = typed_value tseg vseg in
           let evs, err = fold_value t v in
           let verdict = match err with None -> "ok" | Some _ -> "err" in
           let model = Printf.sprintf "EV %s R %s" (toks_of_events evs) verdict in
           let model = match obs_events obs with
             | Some (ievs, iv) when multi && iv = verdict && (verdict <> "ok" || sorted_toks ievs = sorted_toks evs) -> obs
             | _ -> model in
           let oracle = c17_flag flags "a reused iterator differs from a fresh one on the probe value" in
           let oracle = if obs = "PANIC" || obs = "HANG" then ("C17", "iterator crashed: " ^ obs) :: oracle else oracle in
           { model; oracle }
       | _ -> failwith "histfold: item")
  | _ -> failwith "histfold: bad input"

let histunf_case (input : string) (obs0 : string) : verdict =
  let obs, flags = split_flags_all obs0 in
  let segs = List.map String.trim (Str.split_delim (Str.regexp_string ";") input) in
  match segs with
  | _ :: docs when docs <> [] ->
      let last = List.nth docs (List.length docs - 1) in
      (match Str.split_delim (Str.regexp_string "|") last with
       | [ tseg; oseg; eseg ] ->
           let t, _ = parse_gtype (words tseg) in
           let old = if String.trim oseg = "zero" then zero_of t else fst (parse_gvalue t (words oseg)) in
           let evs = events_of_toks (words eseg) in
           let model =
             match unfold_value t old evs with
             | USetupErr _ -> "SETUPERR"
             | UDone v -> "R ok V " ^ gvalue_tok t v
             | UMore -> "R more"
             | UFail _ -> "R err" in
           let impl = strip_depth obs in
           let depth = match Str.bounded_split_delim (Str.regexp_string " D ") obs 2 with [ _; d ] -> Some d | _ -> None in
           let oracle = c17_flag flags "a reused unfolder (after Reset/SetTarget) differs from a fresh one on the last document" in
           let oracle = if impl = "PANIC" || impl = "HANG" then ("C14", "unfolder crashed or hung: " ^ impl) :: oracle else oracle in
           let oracle = match depth with
             | Some d when starts_with impl "R ok" && d <> "0,0,0,0,0,0,0,0,0" ->
                 ("C17", "unfolder stacks not idle after a complete document: " ^ d) :: oracle
             | _ -> oracle in
           (* the key cache must be transparent: with it enabled nothing may differ from the model, which ignores it *)
           let cache_on = match words (List.hd segs) with _ :: c :: _ -> (try int_of_string c >= 0 with _ -> false) | _ -> false in
           let model = if risky_float_for t evs && impl <> "PANIC" && impl <> "HANG" then impl else model in
           let oracle = if cache_on && impl <> model then ("C20", "with the key cache enabled the unfolder's result differs: " ^ impl) :: oracle else oracle in
           { model = (match depth with Some d -> model ^ " D " ^ d | None -> model); oracle }
       | _ -> failwith "histunf: doc")
  | _ -> failwith "histunf: bad input"

(* ---- C15: aliasing (no model computation: nothing may change) ---- *)
let alias_case (_input : string) (obs0 : string) : verdict =
  let obs, _ = split_flags_all obs0 in
  { model = "A ok"; oracle = (if obs = "A ok" then [] else [ ("C15", "a stored or by-value delivered string changed after its source buffers were overwritten: " ^ obs) ]) }

(* ---- C14 / C13: hand-written target types outside the model's type grammar (no model: the Go side
   compares with the plain twin type and checks the integrity of interface slots) ---- *)
let exotic_case (input : string) (obs0 : string) : verdict =
  let obs, flags = split_flags_all obs0 in
  let oracle = ref [] in
  (* entries from index 19 on use an Unfolder that was given (and refused) another target before *)
  let reused = (match words input with i :: _ -> (try let i = int_of_string i in i >= 19 && i <= 21 with _ -> false) | [] -> false) in
  (if obs = "PANIC" || obs = "HANG" then oracle := ("C14", "unfolder crashed or hung on a hand-written target type: " ^ obs) :: ("C20", "unfolder (key cache on in half of the cases) crashed or hung on a hand-written target type: " ^ obs) :: !oracle);
  (if starts_with obs "CORRUPT" then oracle := ("C14", "an interface slot of the target holds a value that does not implement it (unsafe write): " ^ obs) :: !oracle);
  (match List.filter (fun x -> starts_with x "TWIN ") flags with
   | x :: _ ->
       if reused then begin
         oracle := ("C14", "an Unfolder that refused a target before treats the next target differently from a new Unfolder: " ^ obs ^ " vs " ^ x) :: !oracle;
         oracle := ("C17", "an Unfolder that refused a target before treats the next target differently from a new Unfolder: " ^ obs ^ " vs " ^ x) :: !oracle
       end;
       oracle := ("C13", "named target type unfolds differently from its plain twin: " ^ obs ^ " vs " ^ x) :: !oracle;
       (* the hand-written target is unfolded with the key cache on in half of the cases, its twin never *)
       oracle := ("C20", "hand-written target (key cache on in half of the cases) unfolds differently from its twin without cache: " ^ obs ^ " vs " ^ x) :: !oracle
   | [] -> ());
  { model = obs; oracle = !oracle }

(* ---- C12 / C17: custom folders, Folder, IsZeroer (no model: the expectation is written down by hand
   from the documented mapping on the Go side; compared here as values) ---- *)
let userfold_case (input : string) (obs0 : string) : verdict =
  let obs, flags = split_flags_all obs0 in
  let oracle = ref [] in
  let nested = List.exists (fun w -> starts_with w "46:") (words input) in
  let bad why = oracle := ("C12", why) :: ("C17", why) :: (if nested then [ ("C10", "after a nested Fold on the visitor a Folder was handed: " ^ why) ] else []) @ !oracle in
  (* mode x | p, optionally followed by f<k>: the visitor fails at the k-th event of the last item *)
  let fail_k = match words input with
    | m :: _ -> (match String.index_opt m 'f' with Some i -> (try Some (int_of_string (String.sub m (i + 1) (String.length m - i - 1))) with _ -> None) | None -> None)
    | [] -> None in
  (match words obs with
   | "EV" :: rest when fail_k <> None && (match rest with _ -> let _, r = split_at "R" rest in (match r with v :: _ -> v <> "ok" | [] -> true)) ->
       (* the visitor's failure was reached: its error must come back unchanged, nothing after it *)
       let k = match fail_k with Some k -> k | None -> 0 in
       let toks, rest' = split_at "R" rest in
       let verdict = match rest' with v :: _ -> v | [] -> "?" in
       let n = List.length (events_of_toks toks) in
       if verdict = "PANIC" || verdict = "HANG" then bad ("folding a value with a custom folder crashed or hung: " ^ verdict)
       else begin
         if n > k + 1 then oracle := ("C16", "Fold delivered events of a value with a custom folder after the visitor failed") :: !oracle;
         if verdict <> "inj" then oracle := ("C16", "Fold of a value with a custom folder did not return the visitor's error unchanged: " ^ verdict) :: !oracle
       end
   | "EV" :: rest ->
       let toks, rest' = split_at "R" rest in
       let verdict = match rest' with v :: _ -> v | [] -> "?" in
       let got = events_of_toks toks in
       (match find_flag "WANT" flags with
        | Some "ERR" ->
            if verdict <> "err" || got <> [] then bad ("Fold with an invalid option must return an error and deliver nothing: " ^ verdict)
        | Some w ->
            let want = events_of_toks (String.split_on_char '_' w) in
            if verdict <> "ok" then bad ("folding a value with a custom folder / Folder / IsZeroer failed: " ^ verdict)
            else (match stream_tree got, stream_tree want with
                | Some tg, Some tw ->
                    if not (wf_tree tg) then (bad "Fold emitted an ill-formed event stream for a value with a custom folder";
                                              oracle := ("C09", "Fold emitted an ill-formed event stream for a value with a custom folder") :: !oracle)
                    else if not (cvalue_eqb (cv (value_of tg)) (cv (value_of tw))) then
                      bad ("a value with a registered or implemented custom folder / IsZeroer was not folded as documented: got " ^ String.concat " " toks)
                | None, _ -> bad "Fold emitted an unbalanced event stream for a value with a custom folder";
                    oracle := ("C09", "Fold emitted an unbalanced event stream for a value with a custom folder") :: !oracle
                | _, None -> failwith "userfold: bad WANT")
        | None -> failwith "userfold: no WANT")
   | _ -> bad ("crashed or hung: " ^ obs));
  { model = obs; oracle = !oracle }

(* ---- user unfolders, Write after an error, very deep nesting: direct oracles, no model ---- *)
let userunf_case (input : string) (obs0 : string) : verdict =
  let obs, _ = split_flags_all obs0 in
  let c = match words input with c :: _ -> (try int_of_string c with _ -> -1) | [] -> -1 in
  let msg = "a target with a user unfolder (Unfolders / UnfoldState) was not filled as expected: " ^ obs in
  let oracle = if obs = "U ok" then [] else
      [ ("C13", msg); ("C15", msg); ("C14", msg) ]
      @ (if c = 12 || c = 13 then [ ("C10", "strings or keys delivered by reference to a user unfolder do not have the effect of the basic events: " ^ obs) ] else [])
      @ (if c >= 14 && c <= 17 then [ ("C17", "an Unfolder used again does not build what a new one builds (user unfolders): " ^ obs) ] else []) in
  { model = obs; oracle }
let wafter_case (f : fmt) (_input : string) (obs0 : string) : verdict =
  let obs, _ = split_flags_all obs0 in
  let own = match f.fname with "json" -> "C04" | "cbor" -> "C05" | _ -> "C06" in
  let oracle = if obs = "A ok" then [] else
      [ ("C16", "after a failed Write the parser went on with the broken document: " ^ obs);
        ("C03", "after a failed Write the parser went on with the broken document: " ^ obs) ]
      @ (if contains obs "HANG" || contains obs "PANIC" then [ (own, "a parser that had refused a document hung or crashed on the next call: " ^ obs) ] else []) in
  { model = obs; oracle }
let deep_case (_f : fmt) (_input : string) (obs0 : string) : verdict =
  let obs, _ = split_flags_all obs0 in
  { model = obs; oracle = (if obs = "D ok" then [] else [ ("C03", "a document nested as deep as it is long was not parsed: " ^ obs) ]) }

(* ---- C17: an encoder used for a second document (any first document, scalars included) ---- *)
let encreuse_case (_f : fmt) (_input : string) (obs0 : string) : verdict =
  let obs, _ = split_flags_all obs0 in
  { model = obs; oracle = (if obs = "R same" || obs = "R skip" then [] else [ ("C17", "an encoder used before writes something else for the next document than a new one: " ^ obs) ]) }

(* ---- C17: one instance used for more than 10000 documents ---- *)
let longhist_case (_f : fmt) (_input : string) (obs0 : string) : verdict =
  let obs, _ = split_flags_all obs0 in
  { model = obs; oracle = (if obs = "L ok" || obs = "L skip" then [] else [ ("C17", "an instance used for thousands of documents does not behave like a new one: " ^ obs) ]) }

(* ---- C10 / C01: typed arrays of 2^16 elements and more (no model: the extracted encoders are quadratic there) ---- *)
let big_case (_f : fmt) (_input : string) (obs0 : string) : verdict =
  let obs, _ = split_flags_all obs0 in
  let oracle =
    match words obs with
    | [ "A"; _; da; ea; ta; ra; "B"; _; db; eb; tb; rb ] ->
        (if ea <> "-" || eb <> "-" then [ ("C10", "a long typed array was refused: " ^ ea ^ " / " ^ eb) ] else [])
        @ (if da <> db then [ ("C10", "consumer left in a different state: depth " ^ da ^ " vs " ^ db) ] else [])
        @ (if ta <> tb then [ ("C10", "what is written after a long typed array differs between the extended event and its expansion") ] else [])
        @ (if ra <> "rtok" then [ ("C10", "a long typed array written through the extended event does not decode to the same value: " ^ ra); ("C01", "a long typed array does not decode to the value that was encoded: " ^ ra) ] else [])
        @ (if rb <> "rtok" then [ ("C01", "a long array written through the basic events does not decode to the value that was encoded: " ^ rb) ] else [])
    | _ -> [ ("C10", "encoder crashed on a long typed array: " ^ obs); ("C01", "encoder crashed on a long typed array: " ^ obs) ] in
  { model = obs; oracle }

(* ---- C09 / C04-C06 / C02: very long keys and strings (no model: the extracted parsers are too slow on megabytes) ---- *)
let bigstr_case (f : fmt) (input : string) (obs0 : string) : verdict =
  let obs, _ = split_flags_all obs0 in
  let own = match f.fname with "json" -> "C04" | "cbor" -> "C05" | _ -> "C06" in
  let whole = match words input with [ _; _; _; "0" ] -> true | _ -> false in
  let oracle =
    if obs = "S ok" then []
    else
      let msg = "a document with a very long key or string was not reported as written: " ^ obs in
      [ (own, msg); ("C09", msg); ("C03", msg) ] @ (if whole then [] else [ ("C02", msg) ]) in
  { model = obs; oracle }

(* ---- C11: self-referential types (no model: the Go side compares original and copy) ---- *)
let rec_case (_input : string) (obs0 : string) : verdict =
  let obs, _ = split_flags_all obs0 in
  { model = obs; oracle = (if obs = "R ok EQ" then [] else
      ("C11", "a value of a self-referential type was not reproduced: " ^ obs)
      :: (if contains obs "PANIC" || contains obs "HANG" then [ ("C14", "unfolding into a self-referential type crashed or hung: " ^ obs) ] else [])) }

(* ---- C02: every single cut and byte-at-a-time ---- *)
let scut_case (f : fmt) (input : string) (obs0 : string) : verdict =
  let obs, _ = split_flags_all obs0 in
  let doc = bytes_of_hex (String.trim input) in
  let whole = cut_obs (f.parse "P" (-1) [ doc ]) in
  let arr = Array.of_list doc in
  let n = Array.length arr in
  let count = ref 0 and diff = ref None in
  (if not (ends_with whole "HANG" || ends_with whole "PANIC") then
     try
       for i = 1 to n - 1 do
         let a = Array.to_list (Array.sub arr 0 i) and b = Array.to_list (Array.sub arr i (n - i)) in
         let o = cut_obs (f.parse "W" (-1) [ a; b ]) in
         incr count;
         if o <> whole then begin diff := Some (Printf.sprintf "DIFF W %d %s" i o); raise Exit end
       done;
       if n > 0 then
         List.iter (fun mode ->
             let o = cut_obs (f.parse mode (-1) (List.map (fun b -> [ b ]) doc)) in
             incr count;
             if o <> whole then begin diff := Some (Printf.sprintf "DIFF %s 0 %s" mode o); raise Exit end) [ "W"; "R" ]
     with Exit -> ());
  let model = match !diff with
    | Some d -> Printf.sprintf "WHOLE %s %s" whole d
    | None -> Printf.sprintf "WHOLE %s ALL %d" whole !count in
  let oracle = ref [] in
  (if contains obs " DIFF " then oracle := ("C02", "a cut of the document differs from the whole-buffer parse: " ^ (if String.length obs > 300 then String.sub obs 0 300 else obs)) :: !oracle);
  (if contains obs "HANG" || contains obs "PANIC" then oracle := ("C03", "parser crashed or hung doc=" ^ (String.trim input)) :: !oracle);
  { model; oracle = !oracle }
let scut_case f input obs = try scut_case f input obs with Unknown_float -> { model = fst (split_flags obs); oracle = [] }

let fmts = [ cbor_fmt; ubj_fmt; json_fmt ]
let () = all_fmts := fmts
let fmt_handlers =
  ("xc", xc_case) :: ("adapt", adapt_case) :: ("expobj", expobj_case) ::
  List.concat_map (fun f -> [ (f.fname ^ "enc", enc_case f); (f.fname ^ "parse", parse_case f); (f.fname ^ "dec", dec_case f);
                              ("rt" ^ f.fname, rt_case f); ("x10" ^ f.fname, x10_case f); ("hist" ^ f.fname, hist_case f); ("wafter" ^ f.fname, wafter_case f); ("deep" ^ f.fname, deep_case f); ("big" ^ f.fname, big_case f); ("longhist" ^ f.fname, longhist_case f); ("encreuse" ^ f.fname, encreuse_case f); ("bigstr" ^ f.fname, bigstr_case f); ("cuts" ^ f.fname, cuts_case f); ("scut" ^ f.fname, scut_case f) ]) fmts

(* a crash or hang is compared as such: what was delivered before is not part of the observation *)
let canon_obs (o : string) : string =
  if contains o "HANG" then "HANG" else if contains o "PANIC" then "PANIC" else o

let handlers : (string * (string -> string -> verdict)) list = ("lru", lru_case) :: ("fold", fold_case) :: ("unfold", unfold_case) :: ("rtgo", rtgo_case) :: ("alias", alias_case) :: ("rec", rec_case) :: ("exotic", exotic_case) :: ("userfold", userfold_case) :: ("userunf", userunf_case) :: ("histfold", histfold_case) :: ("histunf", histunf_case) :: fmt_handlers


let () =
  let lineno = ref 0 in
  try
    while true do
      let line = input_line stdin in
      incr lineno;
      match String.split_on_char '\t' line with
      | kind :: input :: obs :: _ -> (
          match List.assoc_opt kind handlers with
          | None -> Printf.printf "SKIP %d %s\n" !lineno kind
          | Some h -> (
              match h input obs with
              | v ->
                  let ok = ref true in
                  if canon_obs v.model <> canon_obs (fst (split_flags obs)) then begin
                    ok := false;
                    Printf.printf "CORR %d %s model=%s\n" !lineno kind v.model
                  end;
                  List.iter
                    (fun (p, m) ->
                      ok := false;
                      Printf.printf "ORACLE %d %s %s %s\n" !lineno kind p m)
                    v.oracle;
                  if !ok then Printf.printf "OK %d\n" !lineno
              | exception e ->
                  Printf.printf "CORR %d %s model=EXN:%s\n" !lineno kind (Printexc.to_string e)))
      | _ -> Printf.printf "SKIP %d malformed\n" !lineno
    done
  with End_of_file -> ()
