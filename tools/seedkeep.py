#!/usr/bin/env python3
"""seedkeep.py <prop> <n> <srcdir> [extra check ids...]: confirm the seeded change in <srcdir>, run the
checks against it, and keep it as /verif/seeded/<prop>-<n>/ (patch.diff, demo_test.go, README.md, meta.json, result.json)."""
import sys, os, json, shutil, subprocess
sys.path.insert(0, os.path.dirname(os.path.abspath(__file__)))
import seedtest
RELATED = {
 "C01": ["C01", "C07"], "C02": ["C02", "C17"], "C03": ["C03", "C18"], "C04": ["C04", "C02"], "C05": ["C05", "C02"],
 "C06": ["C06", "C02"], "C07": ["C07", "C01"], "C08": ["C08", "C06"], "C09": ["C09", "C12"], "C10": ["C10", "C13"],
 "C11": ["C11", "C13"], "C12": ["C12", "C17"], "C13": ["C13", "C14", "C17"], "C14": ["C14", "C13", "C11", "C17"], "C15": ["C15", "C13", "C14"],
 "C16": ["C16", "C18"], "C17": ["C17", "C07"], "C18": ["C18", "C03", "C06"], "C19": ["C19", "C14"], "C20": ["C20", "C13"],
}
prop, n, src = sys.argv[1], sys.argv[2], sys.argv[3]
ids = list(dict.fromkeys(RELATED[prop] + sys.argv[4:]))
conf = seedtest.confirm(src)
print("confirm:", {k: v for k, v in conf.items() if not k.endswith("log")})
if not conf.get("confirmed"):
    print(json.dumps(conf, indent=1)[:3000])
    sys.exit(1)
res = seedtest.run(src, ids)
dst = os.path.join("/verif/seeded", "%s-%s" % (prop, n))
os.makedirs(dst, exist_ok=True)
for f in ("patch.diff", "demo_test.go", "README.md"):
    if os.path.exists(os.path.join(src, f)) and os.path.abspath(src) != os.path.abspath(dst):
        shutil.copy(os.path.join(src, f), dst)
readme = open(os.path.join(src, "README.md")).read() if os.path.exists(os.path.join(src, "README.md")) else ""
meta = dict(property=prop, source="independent sub-agent given only the property text and a scratch worktree",
            needs_to_manifest=readme[:1500],
            confirmed=dict(suite_passes_with_change=conf["suite_with_patch_passes"], demo_fails_with_change=conf["demo_with_patch_fails"],
                           demo_passes_without_change=conf["demo_without_patch_passes"]),
            ran=["tools/seedtest.py confirm (scratch worktree under /tmp, removed afterwards)",
                 "git -C /repo apply patch.diff; ./check <ID> quick for " + ", ".join(ids) + "; git -C /repo checkout -- ."])
json.dump(meta, open(os.path.join(dst, "meta.json"), "w"), indent=1)
json.dump(res, open(os.path.join(dst, "result.json"), "w"), indent=1)
caught = [k for k, v in res.items() if v["rc"] != 0]
print("caught by:", caught)
for k, v in res.items():
    print(" ", k, v["rc"], v["verdict"][:140], str(v.get("replay", {}).get("verdict", ""))[:200])
