META = {
 "C20": dict(
  text="Coq theorems over all capacities and all key histories: every get of the modelled cache returns exactly the requested bytes in fresh memory, never panics, and refines an abstract LRU list (C20_cache_transparent, C20_fresh, C20_bounded). The model is tied to gotype/symbols.go by running the extracted model and the real cache (hook) on the same generated histories and comparing returned strings, cache order and index size after overwriting every key buffer.",
  design_ref="DESIGN.md 6 C20",
  note="Trusted: Coq kernel, extraction (ExtrOcamlBasic), the sampling correspondence (Go map = association list, ring = list). No axioms (Print Assumptions: closed).",
  technique="Coq proof (invariant + refinement to abstract LRU by induction over key histories) + extracted-model correspondence"),
}
_P = "check for this property is still under construction in this round (model/proofs not yet built); not a claim that the technique cannot apply"
PENDING = {("C%02d" % i): _P for i in range(1, 21)}
