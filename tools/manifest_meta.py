"""Texts for MANIFEST.json (per claimed property).  `thm` = what the Coq theorems in
coq/Properties/<id>.v state (kept in step with those files); `tie` = what the run-time
part (correspondence + direct oracle on /repo) does."""

TB = ("Trusted: Coq 8.16.1 kernel (full .vo build, vm_compute, no native_compute); extraction with ExtrOcamlBasic only; "
      "ocaml/driver.ml and harness/ (sampling correspondence between the hand-written models and /repo); "
      "Print Assumptions of every property theorem is recorded in the evidence (closed unless stated). ")

META = {
 "C01": dict(
  thm="Theorems (coq/Properties/C01.v): the encoder models followed by the reference decoders / parser models return the image of the stream's value for every well-formed tree (see the file for which formats are fully proved and which statements are `_partial`).",
  tie="Run: generated well-formed streams (all scalar kinds, width boundaries, float bit patterns, byte strings, announced/unknown lengths, extended events) x encoder options are encoded and parsed back by /repo; the extracted models must produce the same bytes and events (correspondence) and the decoded value must equal the format image of the encoded value (direct oracle).",
  note="Floats in JSON go through strconv, an oracle of the model (Go's text is passed per case). ",
  technique="Coq proof (encoder/decoder round-trip by induction over trees) + extracted-model correspondence + direct value oracle"),
 "C02": dict(
  thm="Theorems (coq/Properties/C02.v): on the parser models the events and the accept/reject verdict of any two chunkings of the same bytes agree, and Write*+end agrees with the whole-buffer Parse (see the file for formats covered).",
  tie="Run: every subset of cut positions of short documents (<= 9 bytes quick, <= 12 thorough; valid, truncated and mutated ones), as Write*+end and through a scripted reader, plus random chunkings (single bytes, empty writes) of longer documents, on /repo and on the extracted models; any run that differs from the whole-buffer run is a violation.",
  note="",
  technique="Coq proof (split lemmas for the token collectors, induction over chunk lists) + exhaustive cut-set enumeration on /repo and model"),
 "C03": dict(
  thm="Theorems (coq/Properties/C03.v): the parser models return Ok (events, verdict) - never Panic, never OutOfFuel (the fuel bound is linear in the input) - for all byte strings, chunkings and visitor-failure indices; retained state is bounded by the bytes received; input ending inside a value is an error (see the file for formats covered).",
  tie="Run: random bytes, bit-flips, truncations, unknown markers and length fields up to 2^63-1/2^64-1 in every chunking through Parse, ParseString, Write, ParseReader and the pull decoders of /repo under a 3 s deadline, recover and ulimit -v; outcome must equal the model's, a reference-truncated input must not be accepted.",
  note="One recorded finding (UBJSON typed containers of zero-size elements, known-findings.txt). ",
  technique="Coq proof (reachable-state invariant excluding every panic site, linear fuel bound) + guarded differential runs"),
 "C04": dict(
  thm="Theorems (coq/Properties/C04.v): see the file; the JSON lexing functions of the model (unquote, number classification/conversion) against their RFC 8259 meaning.",
  tie="Run: generated RFC 8259 texts (all escapes, surrogate pairs and lone surrogates followed by any UTF-8, 64-bit boundary integers, fractions/exponents, whitespace) and grammar-violating token sequences: /repo's parser events vs Go's encoding/json (UseNumber) as independent reference, and vs the extracted parser model.",
  note="The reference decoder for JSON lives on the Go side (encoding/json), not in Coq. ",
  technique="Coq proof (lexing lemmas) + reference-decoder oracle + extracted-model correspondence"),
 "C05": dict(
  thm="Theorems (coq/Properties/C05.v): whenever the RFC 7049 reference decoder (Cbor/Spec.v) accepts an item of the subset, the parser model accepts it and its events form a well-formed stream with exactly that value; unsupported items are refused (see the file for what is proved and what is `_partial`).",
  tie="Run: generated items (every value in every argument width, full negative range, zero-length strings/containers, definite/indefinite nesting) and unsupported items: /repo's events vs the extracted reference decoder and vs the extracted parser model.",
  note="",
  technique="Coq proof (simulation of the reference decoder by the parser state machine) + reference-decoder oracle + correspondence"),
 "C06": dict(
  thm="Theorems (coq/Properties/C06.v): see the file.",
  tie="Run: generated draft-12 values (every marker and length marker, typed containers of every element type incl. containers, no-ops, empty containers) through /repo's parser vs the extracted reference decoder (Ubjson/Spec.v) and vs the extracted parser model.",
  note="",
  technique="Coq proof + reference-decoder oracle + correspondence"),
 "C07": dict(
  thm="Theorems (coq/Properties/C07.v): for every well-formed tree the encoder model's output is read back by the independent reference decoder as the image of the tree's value; JSON text predicates (no control characters, no raw <>& with HTML escaping, radix point, non-finite floats refused or null) on the model's output.",
  tie="Run: generated well-formed streams incl. all 29 typed events x options: bytes written by /repo must equal the model's (per Write call) and decode, by the extracted reference decoders (CBOR, UBJSON) or encoding/json (JSON), to the image of the stream's value; the JSON text predicates are checked on the bytes.",
  note="",
  technique="Coq proof (induction over trees against the reference decoders) + reference-decoder oracle + correspondence"),
 "C08": dict(
  thm="Theorems (coq/Properties/C08.v): composition of the parser and encoder theorems (see the file).",
  tie="Run: all nine (source, target) pairs on generated valid source documents and streams of container documents in random chunkings: /repo's output bytes vs the composed models, and target value (reference decoder) vs source value (reference decoder) under the target's representation rules.",
  note="",
  technique="Coq proof by composition (C05/C06/C04 with C07 and C02) + reference-decoder oracle on both ends + correspondence"),
 "C09": dict(
  thm="Theorems (coq/Properties/C09.v): the adapters' expansion of every well-typed extended event, the events of accepted parser inputs and of folded Go values satisfy the contract monitor `contract_ok` (see the file for which producers are proved).",
  tie="Run: the extracted monitor (wf_tree over parse_tree) on the events /repo's parsers deliver for every accepted input, on Fold of generated (type, value) pairs, and on the adapters for all extended events.",
  note="",
  technique="Coq proof (contract monitor as executable predicate; producers' outputs satisfy it) + monitor run on /repo's events"),
 "C10": dict(
  thm="Theorems (coq/Properties/C10.v): a wrapped plain visitor receives exactly `expand e`; encoder models end in the same state for an extended event and for its expansion (see the file).",
  tie="Run: each extended event with generated contents inside generated contexts, followed by further events, through the three encoders of /repo both as extended call and as expansion: same decoded values, same stack depth, same success; adapters vs `expand`; unfolder targets unfolded both ways.",
  note="One recorded finding (UBJSON typed uint arrays needing 'H'). ",
  technique="Coq proof (adapter = expansion; state equality) + differential runs extended vs expanded"),
 "C11": dict(
  thm="Theorems (coq/Properties/C11.v): see the file.",
  tie="Run: generated (type, value) pairs are folded and unfolded into a fresh variable of the same type by /repo, directly and through the JSON, UBJSON and CBOR encoder+parser; the result must be deep-equal (extracted deep_eq/omit_view of Gotype/UnfoldSpec.v: nil and empty slices/maps identified, dropped fields zero) to the original, a type the specification calls unsupported must be refused by an error, never a crash; the direct route must also equal the composition of the fold and unfold models.",
  note="One recorded finding (uint64 above MaxInt64 through UBJSON). Self-referential types are exercised by a hand-written catalogue in a child process. ",
  technique="Coq proof (fold model composed with unfold model) + extracted-model correspondence + deep-equality oracle"),
 "C12": dict(
  thm="Theorems (coq/Properties/C12.v): see the file.",
  tie="Run: generated (type, value) pairs - struct types with every combination of the tag options on fields of every kind, pointer depth 0..3, interfaces holding any supported dynamic type, named types - are folded by /repo into a recording visitor (with and without the extended interfaces); the events must equal those of the extracted fold model (Gotype/Fold.v) and their value must equal the documented mapping (Gotype/FoldSpec.v, written from the documentation).",
  note="User folders, Folder and IsZeroer implementations are not generated. ",
  technique="Coq proof (fold model vs documented mapping) + extracted-model correspondence + direct oracle (spec_fold)"),
 "C13": dict(
  thm="Theorems (coq/Properties/C13.v): see the file.",
  tie="Run: generated (target type, initial target value, event stream) triples - streams from Fold of the same or another type, objects with extra members of every value kind and depth, raw streams; by-value and by-reference delivery, announced and unknown lengths - are unfolded by /repo; the verdict and the final target value must equal those of the extracted unfolder model (Gotype/Unfold.v); stack depths (hook) must be idle after a complete document.",
  note="User unfolders / Expander are not generated; float -> integer conversions outside the target range (implementation-defined in Go) are not compared. ",
  technique="Coq proof + extracted-model correspondence on final target values"),
 "C14": dict(
  thm="Theorems (coq/Properties/C14.v): see the file.",
  tie="Run: every generated (stream, target type) pair incl. shape mismatches at every depth and documents abandoned at a random event, under deadline/recover/ulimit -v: /repo must return an error or succeed exactly as the unfolder model does, never panic or hang; unsupported target types must be refused by SetTarget.",
  note="The memory-safety half (no write outside the target through unsafe) is runtime behaviour the model cannot exhibit: partial. ",
  technique="Coq proof (total unfolder model; allocation bound) + guarded differential runs"),
 "C15": dict(
  thm="Theorems (coq/Properties/C15.v): see the file (by-value deliveries of the parser models; the key cache hands out fresh memory).",
  tie="Run: documents in every chunking are parsed into an Unfolder (interface{} target, optional key cache) and into a recorder that keeps by-value strings without copying; then every chunk buffer is overwritten, a second document reuses the same parser and unfolder, a GC runs, and nothing stored may have changed; a share of the cases forces runtime.GC() between events; the same and the Fold/Unfold pipelines also run under go build -race (checkptr).",
  note="The second sentence of the property (pointer validity, GC at any event boundary) is runtime behaviour no Gallina model exhibits: partial. ",
  technique="Coq proof (provenance of delivered strings in the models) + buffer-scribbling differential runs + checkptr/race-instrumented runs"),
 "C16": dict(
  thm="Theorems (coq/Properties/C16.v): in the encoder models a failed write is returned by the call that made it (if every call returned nil the failing write was never attempted); adapters deliver nothing after a visitor error (see the file for components covered).",
  tie="Run (fault enumeration): writers/visitors failing from a generated index on, for encoders, parsers, adapters and Fold of /repo: an error must be returned no later than the last event, be the injected error itself, and nothing may be delivered after it; outcome must equal the model's.",
  note="",
  technique="Coq proof (write/visitor-error propagation invariant by induction over call sequences) + fault injection on /repo"),
 "C17": dict(
  thm="Theorems (coq/Properties/C17.v): after a complete well-formed document the encoder models' nesting stacks are what they were before (see the file for components covered).",
  tie="Run: histories of complete documents on one reused /repo instance (parsers in Parse and Write mode, encoders, transcoding chains, iterator, unfolder) followed by a probe, compared with a fresh instance and with the model; stack depths read through the verif hooks must be idle.",
  note="",
  technique="Coq proof (stack discipline by induction over trees) + reuse-vs-fresh differential runs with depth hooks"),
 "C18": dict(
  thm="Theorems (coq/Properties/C18.v): see the file.",
  tie="Run: streams of k generated values (and truncated ones) through /repo's pull decoders over byte slices and scripted readers (read sizes 1..bufsize varying per call, data with or before io.EOF, buffer sizes 1..64): each of the first k Next calls must deliver exactly the next value, then io.EOF; a stream ending inside a value must not end in io.EOF; outcome must equal the decoder model's.",
  note="",
  technique="Coq proof + scripted-reader differential runs"),
 "C19": dict(
  thm="Theorems (coq/Properties/C19.v): for every step function that reads the package-level state and reads/writes only its own instance, every number of instances and every schedule, each instance's final state and results equal those of running alone (interleaving_irrelevant); the footprint premise `globals_frozen globals = true` is proved by computation on a table that tools/globals regenerates from /repo's type-checked sources on every run (every package-level variable, its class, and every assignment, write-through, address-of or hand-on outside init()).",
  tie="Run: the translator + the two theorems, then N goroutines running fold/encode/parse/unfold pipelines on their own instances over shared values and freshly created types under the race detector, each goroutine's results compared with the sequential results.",
  note="The data-race half is runtime behaviour: the theorem covers the logic (footprint + all schedules), the race detector samples executions: partial. Trusts the Go memory model (DRF-SC). ",
  technique="Coq proof over all schedules + source-to-Coq translator for the shared-state footprint + race-detector runs"),
 "C20": dict(
  thm="Coq theorems over all capacities and all key histories: every get of the modelled cache returns exactly the requested bytes in fresh memory, never panics, and refines an abstract LRU list (C20_cache_transparent, C20_fresh, C20_bounded).",
  tie="The model is tied to gotype/symbols.go by running the extracted model and the real cache (hook) on the same generated histories and comparing returned strings, cache order and index size after overwriting every key buffer.",
  note="Go map = association list, ring = list. ",
  technique="Coq proof (invariant + refinement to abstract LRU by induction over key histories) + extracted-model correspondence"),
}
_P = "check for this property is still under construction (model/harness not yet built); not a claim that the technique cannot apply"
PENDING = {("C%02d" % i): _P for i in range(1, 21)}
