"""Texts for MANIFEST.json (per claimed property).  `thm` = what the Coq theorems in
coq/Properties/<id>.v state (kept in step with those files); `tie` = what the run-time
part (correspondence + direct oracle on /repo) does."""

TB = ("Trusted: Coq 8.16.1 kernel (full .vo build, vm_compute, no native_compute); extraction with ExtrOcamlBasic only; "
      "ocaml/driver.ml and harness/ (sampling correspondence between the hand-written models and /repo); "
      "Print Assumptions of every property theorem is recorded in the evidence (closed unless stated). ")

META = {
 "C01": dict(
  thm="Theorems (coq/Properties/C01.v): C01_cbor, C01_cbor_stream - for every well-formed tree the CBOR encoder model's output, fed to the parser model in ANY chunking, is accepted with a well-formed stream of the same value (composition of C07, C05, C02). For UBJSON and JSON the two halves are proved separately (encoder vs reference decoder in C07, parser vs reference decoder in C06/C04); their composition is being added.",
  tie="Run: generated well-formed streams (all scalar kinds, width boundaries, float bit patterns, byte strings, announced/unknown lengths, extended events) x encoder options are encoded and parsed back by /repo; the extracted models must produce the same bytes and events (correspondence) and the decoded value must equal the format image of the encoded value (direct oracle).",
  note="Floats in JSON go through strconv, an oracle of the model (Go's text is passed per case). ",
  technique="Coq proof (encoder/decoder round-trip by induction over trees) + extracted-model correspondence + direct value oracle"),
 "C02": dict(
  thm="Theorems (coq/Properties/C02.v): for all three parser models, any two chunkings of the same bytes (and whole-buffer Parse vs Write*+end) give IDENTICAL events and verdict, for every visitor-failure index: C02_cbor_chunks/entry/write_split, C02_json_chunks/entry (both unconditional), C02_ubj_chunks/entry (whenever both runs return, which C03 guarantees outside finding F2).",
  tie="Run: every subset of cut positions of short documents (<= 9 bytes quick, <= 12 thorough; valid, truncated and mutated ones), as Write*+end and through a scripted reader, plus random chunkings (single bytes, empty writes) of longer documents, on /repo and on the extracted models; any run that differs from the whole-buffer run is a violation.",
  note="",
  technique="Coq proof (split lemmas for the token collectors, induction over chunk lists) + exhaustive cut-set enumeration on /repo and model"),
 "C03": dict(
  thm="Theorems (coq/Properties/C03.v): CBOR and JSON parser models never Panic and never run out of their linear fuel, for all bytes, chunkings and visitor-failure indices (C03_cbor_chunks_total, C03_cbor_parse_total, C03_json_*_total, C03_json_unquote_safe), retained state is linear in the bytes received (C03_*_space), truncated CBOR input is an error; UBJSON: C03_ubj_no_panic unconditional, C03_ubj_chunks_total under a syntactic guard excluding finding F2, which is proved real (C03_ubj_zero_typed_refuted). The CBOR pull decoder is total (C18_cbor_next_total).",
  tie="Run: random bytes, bit-flips, truncations, unknown markers and length fields up to 2^63-1/2^64-1 in every chunking through Parse, ParseString, Write, ParseReader and the pull decoders of /repo under a 3 s deadline, recover and ulimit -v; outcome must equal the model's, a reference-truncated input must not be accepted.",
  note="One recorded finding (UBJSON typed containers of zero-size elements, known-findings.txt). ",
  technique="Coq proof (reachable-state invariant excluding every panic site, linear fuel bound) + guarded differential runs"),
 "C04": dict(
  thm="Theorems (coq/Properties/C04.v): Json/Spec.v is a reference decoder written from RFC 8259 (validated against encoding/json on every run); C04_accept: whenever it accepts a text with value v the parser model accepts it with a well-formed stream of exactly v (all escapes, surrogates, 64-bit boundary integers, floats through the same ParseFloat oracle); C04_accept_stream, C04_number (never a different number), C04_unquote. The reject direction is decided by the run-time part.",
  tie="Run: generated RFC 8259 texts (all escapes, surrogate pairs and lone surrogates followed by any UTF-8, 64-bit boundary integers, fractions/exponents, whitespace) and grammar-violating token sequences: /repo's parser events vs Go's encoding/json (UseNumber) as independent reference, and vs the extracted parser model.",
  note="The reference decoder for JSON lives on the Go side (encoding/json), not in Coq. ",
  technique="Coq proof (lexing lemmas) + reference-decoder oracle + extracted-model correspondence"),
 "C05": dict(
  thm="Theorems (coq/Properties/C05.v): C05_accept, C05_refuse, C05_malformed, C05_accept_iff - the CBOR parser model accepts exactly the inputs the RFC 7049 reference decoder (Cbor/Spec.v) accepts, with exactly its values; unsupported and malformed items are refused.",
  tie="Run: generated items (every value in every argument width, full negative range, zero-length strings/containers, definite/indefinite nesting) and unsupported items: /repo's events vs the extracted reference decoder and vs the extracted parser model.",
  note="",
  technique="Coq proof (simulation of the reference decoder by the parser state machine) + reference-decoder oracle + correspondence"),
 "C06": dict(
  thm="Theorems (coq/Properties/C06.v): C06_accept - whenever the draft-12 reference decoder (Ubjson/Spec.v) accepts an input with value v, the parser model accepts it with a well-formed stream of exactly v (every marker, no-ops, counted/typed containers nested to any depth); C06_scope - after any value the state/element-type/length stacks are what they were before (the element type of an optimized container does not leak). Guard: finding F2.",
  tie="Run: generated draft-12 values (every marker and length marker, typed containers of every element type incl. containers, no-ops, empty containers) through /repo's parser vs the extracted reference decoder (Ubjson/Spec.v) and vs the extracted parser model.",
  note="",
  technique="Coq proof + reference-decoder oracle + correspondence"),
 "C07": dict(
  thm="Theorems (coq/Properties/C07.v): for every well-formed tree the encoder model's output is read back by the independent reference decoder as the image of the tree's value: C07_cbor (+stream, +in_context), C07_ubj (image ubj_img), C07_json (image json_img; hypotheses only about strconv); JSON text predicates C07_json_text / utf8_always / nonfinite / radix.",
  tie="Run: generated well-formed streams incl. all 29 typed events x options: bytes written by /repo must equal the model's (per Write call) and decode, by the extracted reference decoders (CBOR, UBJSON) or encoding/json (JSON), to the image of the stream's value; the JSON text predicates are checked on the bytes.",
  note="",
  technique="Coq proof (induction over trees against the reference decoders) + reference-decoder oracle + correspondence"),
 "C08": dict(
  thm="Theorems (coq/Properties/C08.v): C08_cbor_cbor, C08_cbor_cbor_stream (any chunking). The other pairs compose the same way from C04-C06 and C07; their composition file is being added - until then they are decided by the run-time part.",
  tie="Run: all nine (source, target) pairs on generated valid source documents and streams of container documents in random chunkings: /repo's output bytes vs the composed models, and target value (reference decoder) vs source value (reference decoder) under the target's representation rules.",
  note="",
  technique="Coq proof by composition (C05/C06/C04 with C07 and C02) + reference-decoder oracle on both ends + correspondence"),
 "C09": dict(
  thm="Theorems (coq/Properties/C09.v): the monitor is exact (contract_ok evs <-> evs = flatten of a well-formed tree); adapters (C09_adapter_arr/obj/stream); CBOR parser on every accepted input (C09_cbor_accepted); UBJSON parser on reference-valid input (C09_ubj_parser); Fold for every well-typed value of every type and tag combination (C09_fold). JSON parser: part of C04_accept.",
  tie="Run: the extracted monitor (wf_tree over parse_tree) on the events /repo's parsers deliver for every accepted input, on Fold of generated (type, value) pairs, and on the adapters for all extended events.",
  note="",
  technique="Coq proof (contract monitor as executable predicate; producers' outputs satisfy it) + monitor run on /repo's events"),
 "C10": dict(
  thm="Theorems (coq/Properties/C10.v): C10_wrap (a wrapped plain visitor receives exactly `expand e`), C10_expansion_same_value, C10_expansion_wellformed; C10_cbor_enc (from ANY encoder state a tree and its expansion both succeed, restore the nesting state and append bytes decoding to the same value), C10_json_enc, C10_ubj_enc_state, C10_ubj_same_value_iff and C10_ubj_typed_h_refuted (the recorded finding as a theorem with witness); C10_unfold_expand, C10_unfold_byref, C10_unfold_tree (the unfolder model, every target type: extended = expanded, by-reference = by-value).",
  tie="Run: each extended event with generated contents inside generated contexts, followed by further events, through the three encoders of /repo both as extended call and as expansion: same decoded values, same stack depth, same success; adapters vs `expand`; unfolder targets unfolded both ways.",
  note="One recorded finding (UBJSON typed uint arrays needing 'H'). ",
  technique="Coq proof (adapter = expansion; state equality) + differential runs extended vs expanded"),
 "C11": dict(
  thm="Theorems (coq/Properties/C11.v): C11_fold_refuses_unsupported (an unsupported static type is refused before any event), C11_supported_iff_compiles. C11_direct_partial, C11_direct_struct_partial (PARTIAL identity, direct route: every well-typed value of every type built from scalars, pointers, slices, string-keyed maps, named versions of these, and of every struct with such fields under any names / - / omitempty / unexported: if Fold accepts, unfolding into a zero target completes with a deep_eq value; nested structs, inline and interface fields are decided by the run-time part only); C11_struct_instance (non-vacuity).",
  tie="Run: generated (type, value) pairs are folded and unfolded into a fresh variable of the same type by /repo, directly and through the JSON, UBJSON and CBOR encoder+parser; the result must be deep-equal (extracted deep_eq/omit_view of Gotype/UnfoldSpec.v: nil and empty slices/maps identified, dropped fields zero) to the original, a type the specification calls unsupported must be refused by an error, never a crash; the direct route must also equal the composition of the fold and unfold models.",
  note="One recorded finding (uint64 above MaxInt64 through UBJSON). Self-referential types are exercised by a hand-written catalogue in a child process. ",
  technique="Coq proof (fold model composed with unfold model) + extracted-model correspondence + deep-equality oracle"),
 "C12": dict(
  thm="Theorems (coq/Properties/C12.v): C12_fold - every successful fold of a well-typed value yields one well-formed value equal to the documented mapping spec_fold (Gotype/FoldSpec.v, written from the documentation); C12_fold_refuses, C12_fold_accepts (the mapping is defined iff Fold succeeds, for supported static types).",
  tie="Run: generated (type, value) pairs - struct types with every combination of the tag options on fields of every kind, pointer depth 0..3, interfaces holding any supported dynamic type, named types - are folded by /repo into a recording visitor (with and without the extended interfaces); the events must equal those of the extracted fold model (Gotype/Fold.v) and their value must equal the documented mapping (Gotype/FoldSpec.v, written from the documentation).",
  note="User folders, Folder and IsZeroer implementations are not generated. ",
  technique="Coq proof (fold model vs documented mapping) + extracted-model correspondence + direct oracle (spec_fold)"),
 "C13": dict(
  thm="Theorems (coq/Properties/C13.v): C13_generic / C13_generic_in_context - for EVERY well-formed tree (any nesting, announced or unknown lengths, element-type hints, extended events, strings/keys by value or by reference) unfolding into interface{} yields exactly `generic t`, the L0 definition of the stream's value as generic Go data, whatever the target held and whatever follows; C13_skip / C13_skip_incomplete / C13_skip_exact_or_more - the value of an unknown member, of every kind and depth, is consumed exactly and as a whole with the fuel the struct unfolder passes, an incomplete one asks for more and never fails; C13_byref_irrelevant (every target type); C13_conv_fits. The typed-target sentence (fields assigned / untouched) is proved for flat structs as part of C11_direct_struct_partial and otherwise decided by the run-time part.",
  tie="Run: generated (target type, initial target value, event stream) triples - streams from Fold of the same or another type, objects with extra members of every value kind and depth, raw streams; by-value and by-reference delivery, announced and unknown lengths - are unfolded by /repo; the verdict and the final target value must equal those of the extracted unfolder model (Gotype/Unfold.v); stack depths (hook) must be idle after a complete document.",
  note="User unfolders / Expander are not generated; float -> integer conversions outside the target range (implementation-defined in Go) are not compared. ",
  technique="Coq proof + extracted-model correspondence on final target values"),
 "C14": dict(
  thm="Theorems (coq/Properties/C14.v): C14_allocation_bound(_top) - for EVERY target type, previous content and event list (matching or not) the size of the result is at most the size of the previous content plus W(type) x events consumed; announced lengths do not occur in the bound (C14_allocation_iface: 2049 per event; C14_slice_of_scalars; C14_lying_length_example: 10^12 announced, 4096 allocated); C14_document_exact, C14_after_done_refused (a completed document leaves nothing pending). The model is total (no crash outcome): no-panic is decided by the guarded runs.",
  tie="Run: every generated (stream, target type) pair incl. shape mismatches at every depth and documents abandoned at a random event, under deadline/recover/ulimit -v: /repo must return an error or succeed exactly as the unfolder model does, never panic or hang; unsupported target types must be refused by SetTarget.",
  note="The memory-safety half (no write outside the target through unsafe) is runtime behaviour the model cannot exhibit: partial. ",
  technique="Coq proof (total unfolder model; allocation bound) + guarded differential runs"),
 "C15": dict(
  thm="Theorems (coq/Properties/C15.v): see the file (by-value deliveries of the parser models; the key cache hands out fresh memory).",
  tie="Run: documents in every chunking are parsed into an Unfolder (interface{} target, optional key cache) and into a recorder that keeps by-value strings without copying; then every chunk buffer is overwritten, a second document reuses the same parser and unfolder, a GC runs, and nothing stored may have changed; a share of the cases forces runtime.GC() between events; the same and the Fold/Unfold pipelines also run under go build -race (checkptr).",
  note="The second sentence of the property (pointer validity, GC at any event boundary) is runtime behaviour no Gallina model exhibits: partial. ",
  technique="Coq proof (provenance of delivered strings in the models) + buffer-scribbling differential runs + checkptr/race-instrumented runs"),
 "C16": dict(
  thm="Theorems (coq/Properties/C16.v): encoders - a failed write is returned by the call that made it (C16_cbor_enc, C16_json_enc, C16_ubj_enc, C16_json_enc_error_unchanged); adapters - exact prefix semantics (C16_adapter); CBOR and UBJSON parsers - for every input, chunking and failure index k the failing run delivers exactly the first k+1 events of the unfailing run and returns the visitor's error unchanged (C16_cbor_parser, C16_ubj_parser, C16_ubj_parser_parse, C16_ubj_parser_prompt); Fold - C16_fold (same statement for every type and value).",
  tie="Run (fault enumeration): writers/visitors failing from a generated index on, for encoders, parsers, adapters and Fold of /repo: an error must be returned no later than the last event, be the injected error itself, and nothing may be delivered after it; outcome must equal the model's.",
  note="",
  technique="Coq proof (write/visitor-error propagation invariant by induction over call sequences) + fault injection on /repo"),
 "C17": dict(
  thm="Theorems (coq/Properties/C17.v): completing a document restores the nesting state: C17_cbor_enc_idle, C17_json_enc_idle, C17_json_enc_any_state, C17_ubj_enc_idle; C17_cbor_parser_idle (the parser IS the initial parser after any accepted input); C17_unfold_exact, C17_unfold_rest_independent, C17_unfold_sequence (the unfolder consumes exactly the document, independent of what follows); UBJSON parser: C17_ubj_parser_top(_chunks), C17_ubj_parser_history (after ANY accepted input, from any state reachable by accepted documents: state stack empty, start state, nothing buffered, no pending marker, no latched error), C17_ubj_parser_reset (for reference-accepted documents the parser IS the initial parser up to the write-before-read field up_vtype). PARTIAL for UBJSON: the behavioural reused-equals-fresh statement is decided by the run-time part.",
  tie="Run: histories of complete documents on one reused /repo instance (parsers in Parse and Write mode, encoders, transcoding chains, iterator, unfolder) followed by a probe, compared with a fresh instance and with the model; stack depths read through the verif hooks must be idle.",
  note="",
  technique="Coq proof (stack discipline by induction over trees) + reuse-vs-fresh differential runs with depth hooks"),
 "C18": dict(
  thm="Theorems (coq/Properties/C18.v): CBOR pull decoder over any reader script (any read sizes, empty reads, io.EOF with or after the last data): k Next calls deliver exactly the k values, then io.EOF (C18_cbor_reader_stream, C18_cbor_bytes_stream); read sizes are irrelevant (C18_cbor_script_independent); Next is total (C18_cbor_next_total). UBJSON: C18_ubj_no_panic (any script), C18_ubj_next_total (under the guard that excludes the recorded finding F2, Next returns; nil verdict => state stack empty, >= 1 byte consumed), C18_ubj_scripts_same_data (read sizes irrelevant for the complete event sequence and final verdict); PARTIAL: one value per Next call for UBJSON, and the JSON decoder, are decided by the run-time part.",
  tie="Run: streams of k generated values (and truncated ones) through /repo's pull decoders over byte slices and scripted readers (read sizes 1..bufsize varying per call, data with or before io.EOF, buffer sizes 1..64): each of the first k Next calls must deliver exactly the next value, then io.EOF; a stream ending inside a value must not end in io.EOF; outcome must equal the decoder model's.",
  note="",
  technique="Coq proof + scripted-reader differential runs"),
 "C19": dict(
  thm="Theorems (coq/Properties/C19.v): for every step function that reads the package-level state and reads/writes only its own instance, every number of instances and every schedule, each instance's final state and results equal those of running alone (interleaving_irrelevant); the footprint premise `globals_frozen globals = true` is proved by computation on a table that tools/globals regenerates from /repo's type-checked sources on every run (every package-level variable, its class, and every assignment, write-through, address-of or hand-on outside init()).",
  tie="Run: the translator + the two theorems, then N goroutines running fold/encode/parse/unfold pipelines on their own instances over shared values and freshly created types under the race detector, each goroutine's results compared with the sequential results.",
  note="The data-race half is runtime behaviour: the theorem covers the logic (footprint + all schedules), the race detector samples executions: partial. Trusts the Go memory model (DRF-SC). ",
  technique="Coq proof over all schedules + source-to-Coq translator for the shared-state footprint + race-detector runs"),
 "C20": dict(
  thm="Coq theorems over all capacities and all key histories: every get of the modelled cache returns exactly the requested bytes in fresh memory, never panics, and refines an abstract LRU list (C20_cache_transparent, C20_fresh, C20_bounded).",
  tie="The model is tied to gotype/symbols.go by running the extracted model and the real cache (hook) on the same generated histories and comparing returned strings, cache order and index size after overwriting every key buffer.",
  note="Go map = association list, ring = list. ",
  technique="Coq proof (invariant + refinement to abstract LRU by induction over key histories) + extracted-model correspondence"),
}
_P = "check for this property is still under construction (model/harness not yet built); not a claim that the technique cannot apply"
PENDING = {("C%02d" % i): _P for i in range(1, 21)}
