#!/usr/bin/env python3
"""Regenerates seeded/README.md from the meta.json / result.json of every seeded change."""
import os, json, glob
rows = []
for d in sorted(glob.glob("/verif/seeded/*/")):
    name = os.path.basename(d.rstrip("/"))
    try:
        meta = json.load(open(d + "meta.json")); res = json.load(open(d + "result.json"))
    except Exception:
        continue
    patch = open(d + "patch.diff").read()
    files = sorted({l[6:] for l in patch.splitlines() if l.startswith("+++ b/")})
    caught = [k for k, v in res.items() if v["rc"] != 0]
    how = []
    for k in caught:
        v = res[k]
        verdict = v.get("replay", {}).get("verdict", "") or v.get("replay", {}).get("broken", "")
        how.append("%s: %s" % (k, (verdict[:140] + ("…" if len(verdict) > 140 else "")) + (" (no-failing-input-found)" if "no-failing-input-found" in v["verdict"] else "")))
    if meta.get("obsolete"):
        rows.append((name, meta["property"], ", ".join(files), ", ".join(caught) or "none (no longer a violation)", ["OBSOLETE: " + meta["obsolete"]]))
        continue
    rows.append((name, meta["property"], ", ".join(files), ", ".join(caught) or "MISSED", how))
out = ["# Seeded changes\n",
       "Each directory holds a change to elastic/go-structform written by an independent sub-agent that was given only the text",
       "of one property and a scratch worktree (nothing from /verif). Every change compiles, passes the existing test suite and",
       "comes with a demonstration test that fails with it and passes without it (confirmed by `tools/seedtest.py confirm` in a",
       "scratch worktree under /tmp, removed afterwards). `result.json` records `./check <ID> quick` for the listed checks with",
       "the change applied to /repo (`git apply`, undone with `git checkout -- .`). Never committed to /repo.\n",
       "| change | aimed at | files | reported by | how |", "|---|---|---|---|---|"]
for name, prop, files, caught, how in rows:
    out.append("| %s | %s | %s | %s | %s |" % (name, prop, files, caught, "<br>".join(h.replace("|", "\\|") for h in how)))
out.append("\nChecks that first missed a change and were strengthened because of it: see DESIGN.md §13.")
open("/verif/seeded/README.md", "w").write("\n".join(out) + "\n")
print(len(rows), "seeded changes;", sum(1 for r in rows if r[3] == "MISSED"), "missed")
