#!/usr/bin/env python3
"""Regenerates MANIFEST.json from tools/proptable.py + tools/manifest_meta.py."""
import json, os, sys, subprocess
ROOT = os.path.dirname(os.path.dirname(os.path.abspath(__file__)))
sys.path.insert(0, os.path.join(ROOT, "tools"))
from proptable import PROPS
from manifest_meta import META, PENDING, TB

hooks = subprocess.run(["git", "-C", "/repo", "log", "--format=%H %s"], capture_output=True, text=True).stdout
hook_commits = [l.split()[0] for l in hooks.splitlines() if "verif hooks" in l]

checks = []
for pid in sorted(PROPS):
    m = META[pid]
    has_thm = os.path.exists(os.path.join(ROOT, "coq", "Properties", pid + ".v"))
    checks.append(dict(
        property_id=pid,
        quick_cmd="./check %s quick" % pid,
        thorough_cmd="./check %s thorough" % pid,
        evidence_file="evidence/%s.json" % pid,
        replay_cmd_template="./check %s --replay {path}" % pid,
        engine="coq-model+correspondence",
        level_claimed=dict(category="proof" if has_thm else "exploration",
                           text=(m["thm"] + " " if has_thm else "No theorem is registered for this property yet (proofs in progress); the check is the run-time part only. ") + m["tie"],
                           design_ref="DESIGN.md 6 " + pid),
        level_note=TB + m["note"],
        technique=m["technique"],
    ))
man = dict(
    version=1,
    setup_cmd="./check setup",
    hooks=dict(guard="verif (Go build tag)", enable="go build -tags verif (harness module with replace => /repo)",
               baseline_off_cmd="cd /repo && go test -vet=off -count=1 ./...",
               source_commits=hook_commits, add_only=True),
    engines=[dict(name="coq-model+correspondence", path="check",
                  serves_properties=sorted(PROPS),
                  kind_free_text="Coq 8.16.1 theorems about hand-written executable models (coq/), extracted to OCaml and "
                                 "diffed against the Go implementation on generated cases (harness/), plus extracted L0 oracles")],
    checks=checks,
    notes="See DESIGN.md. known-findings.txt lists fixed defects and recorded findings.",
    not_applicable=[dict(property_id=p, reason=r) for p, r in sorted(PENDING.items()) if p not in PROPS],
)
json.dump(man, open(os.path.join(ROOT, "MANIFEST.json"), "w"), indent=1)
print("wrote MANIFEST.json with %d checks, %d not_applicable" % (len(checks), len(man["not_applicable"])))
