#!/usr/bin/env python3
"""seedtest.py - confirm a seeded change and run the checks against it (my QA, not a registered check).

  seedtest.py confirm <dir>            <dir> holds patch.diff and demo_test.go ("// place in: <pkgdir>/" on line 1)
       scratch worktree of /repo under /tmp: suite passes with the patch, the demo fails with it and passes without
  seedtest.py run <dir> <ID> [<ID>..]  apply patch.diff to /repo, run ./check <ID> quick for each, undo the patch
"""
import sys, os, subprocess, shutil, re, json, tempfile

ENV = dict(os.environ, GOFLAGS="-mod=mod", GOPROXY="off", GOSUMDB="off", GOTOOLCHAIN="local")


def sh(cmd, cwd=None, timeout=1800):
    p = subprocess.run(cmd, cwd=cwd, shell=isinstance(cmd, str), env=ENV, stdout=subprocess.PIPE, stderr=subprocess.STDOUT, text=True, errors="replace", timeout=timeout)
    return p.returncode, p.stdout


def demo_place(d):
    first = open(os.path.join(d, "demo_test.go")).readline()
    m = re.search(r"place in:\s*(\S+)", first)
    return (m.group(1).strip("/") if m else "").strip() or "."


def confirm(d):
    wt = tempfile.mkdtemp(prefix="seedwt-", dir="/tmp")
    os.rmdir(wt)
    res = {}
    try:
        rc, out = sh(["git", "-C", "/repo", "worktree", "add", "--detach", wt, "HEAD"])
        assert rc == 0, out
        place = demo_place(d)
        demo_dst = os.path.join(wt, place, "zz_seed_demo_test.go")
        # without the patch: demo passes
        shutil.copy(os.path.join(d, "demo_test.go"), demo_dst)
        rc, out = sh("go test -vet=off -count=1 ./%s/" % place, cwd=wt)
        res["demo_without_patch_passes"] = rc == 0
        res["demo_without_patch_log"] = out[-600:]
        os.remove(demo_dst)
        # with the patch: suite passes, demo fails
        rc, out = sh(["git", "apply", os.path.join(os.path.abspath(d), "patch.diff")], cwd=wt)
        res["patch_applies"] = rc == 0
        if rc != 0:
            res["apply_log"] = out[-600:]
            return res
        rc, out = sh("go build ./... && go test -vet=off -count=1 ./...", cwd=wt)
        res["suite_with_patch_passes"] = rc == 0
        res["suite_log"] = out[-600:]
        shutil.copy(os.path.join(d, "demo_test.go"), demo_dst)
        rc, out = sh("go test -vet=off -count=1 ./%s/" % place, cwd=wt, timeout=600)
        res["demo_with_patch_fails"] = rc != 0
        res["demo_with_patch_log"] = out[-900:]
    finally:
        sh(["git", "-C", "/repo", "worktree", "remove", "--force", wt])
        shutil.rmtree(wt, ignore_errors=True)
    res["confirmed"] = bool(res.get("demo_without_patch_passes") and res.get("patch_applies") and res.get("suite_with_patch_passes") and res.get("demo_with_patch_fails"))
    return res


def run(d, ids):
    rc, out = sh(["git", "-C", "/repo", "status", "--porcelain"])
    assert out.strip() == "", "/repo is not clean: " + out
    rc, out = sh(["git", "-C", "/repo", "apply", os.path.join(os.path.abspath(d), "patch.diff")])
    assert rc == 0, out
    res = {}
    # the evidence files must come from runs on the unchanged tree: keep them and put them back afterwards
    evdir = "/verif/evidence"
    saved = {f: open(os.path.join(evdir, f), "rb").read() for f in os.listdir(evdir)} if os.path.isdir(evdir) else {}
    try:
        for pid in ids:
            rc, out = sh(["./check", pid, "quick"], cwd="/verif", timeout=3000)
            lines = [l for l in out.splitlines() if l.startswith("VIOLATION") or l.startswith("OK ")]
            res[pid] = dict(rc=rc, verdict=(lines[-1] if lines else out[-300:]))
            if rc != 0:
                for l in out.splitlines():
                    m = re.match(r"VIOLATION property=\S+ replay=(\S+)", l)
                    if m and os.path.exists(m.group(1)):
                        try:
                            o = json.load(open(m.group(1)))
                            res[pid]["replay"] = {k: (str(v)[:500]) for k, v in o.items() if k in ("kind", "broken", "verdict", "case", "count")}
                        except Exception:
                            pass
    finally:
        sh(["git", "-C", "/repo", "checkout", "--", "."])
        sh(["git", "-C", "/repo", "clean", "-fdq"])
        for f, data in saved.items():
            open(os.path.join(evdir, f), "wb").write(data)
    return res


if __name__ == "__main__":
    cmd, d = sys.argv[1], sys.argv[2]
    if cmd == "confirm":
        print(json.dumps(confirm(d), indent=1))
    elif cmd == "run":
        print(json.dumps(run(d, sys.argv[3:]), indent=1))
