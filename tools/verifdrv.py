"""Driver behind /verif/check (see DESIGN.md 1.3, 4, 5)."""
import sys, os, re, json, time, subprocess, hashlib, fcntl, shutil, glob

ROOT = os.path.dirname(os.path.dirname(os.path.abspath(__file__)))
BUILD = os.path.join(ROOT, "build")
COQ = os.path.join(ROOT, "coq")
REPO = os.environ.get("VERIF_REPO", "/repo")
NPROC = 16
CUTSMAX = [9]
TIER = ["quick"]

GOENV = dict(os.environ, GOFLAGS="-mod=mod", GOPROXY="off", GOSUMDB="off", GOTOOLCHAIN="local")

sys.path.insert(0, os.path.join(ROOT, "tools"))
from proptable import PROPS  # noqa: E402


def log(*a):
    print(*a, file=sys.stderr, flush=True)


def sh(cmd, cwd=None, env=None, timeout=None, capture=True):
    p = subprocess.run(cmd, cwd=cwd, env=env, shell=isinstance(cmd, str), timeout=timeout,
                       stdout=subprocess.PIPE if capture else None,
                       stderr=subprocess.STDOUT if capture else None, text=True)
    return p.returncode, (p.stdout or "")


class Lock:
    def __init__(self, name):
        os.makedirs(BUILD, exist_ok=True)
        self.f = open(os.path.join(BUILD, name + ".lock"), "w")

    def __enter__(self):
        fcntl.flock(self.f, fcntl.LOCK_EX)

    def __exit__(self, *a):
        fcntl.flock(self.f, fcntl.LOCK_UN)


def newest(paths):
    m = 0
    for p in paths:
        try:
            m = max(m, os.path.getmtime(p))
        except OSError:
            pass
    return m


# ---------------------------------------------------------------- builds
def build_coq():
    """Full .vo build of the development (no-op when fresh). Returns (ok, log)."""
    with Lock("coq"):
        os.makedirs(os.path.join(BUILD, "logs"), exist_ok=True)
        if not os.path.exists(os.path.join(COQ, "Makefile")) or \
                os.path.getmtime(os.path.join(COQ, "Makefile")) < os.path.getmtime(os.path.join(COQ, "_CoqProject")):
            rc, out = sh("coq_makefile -f _CoqProject -o Makefile", cwd=COQ)
            if rc != 0:
                return False, out
        rc, out = sh("timeout 3000 make -j%d" % NPROC, cwd=COQ)
        open(os.path.join(BUILD, "logs", "coq_make.log"), "w").write(out)
        return rc == 0, out


def build_model():
    """Extract the models and build the OCaml driver (when stale)."""
    with Lock("ocaml"):
        exe = os.path.join(BUILD, "sfmodel")
        srcs = glob.glob(os.path.join(COQ, "**", "*.v"), recursive=True) + \
            glob.glob(os.path.join(ROOT, "ocaml", "*.ml"))
        if os.path.exists(exe) and os.path.getmtime(exe) >= newest(srcs):
            return True, ""
        d = os.path.join(BUILD, "ocaml")
        shutil.rmtree(d, ignore_errors=True)
        os.makedirs(d)
        shutil.copy(os.path.join(COQ, "Extract", "Extract.v"), d)
        rc, out = sh("timeout 1200 coqc -Q %s SF Extract.v" % COQ, cwd=d)
        if rc != 0:
            return False, out
        for f in glob.glob(os.path.join(ROOT, "ocaml", "*.ml")):
            shutil.copy(f, d)
        rc, out2 = sh("timeout 1200 ocamlfind ocamlopt -package zarith,str -linkpkg -w -a -O2 -unboxed-types 2>/dev/null "
                      "sfmodel.mli sfmodel.ml driver.ml -o sfmodel.tmp || "
                      "timeout 1200 ocamlfind ocamlopt -package zarith,str -linkpkg -w -a sfmodel.mli sfmodel.ml driver.ml -o sfmodel.tmp",
                      cwd=d)
        if rc != 0:
            return False, out + out2
        os.replace(os.path.join(d, "sfmodel.tmp"), exe)
        return True, out + out2


def build_translator():
    with Lock("translator"):
        t = os.path.join(ROOT, "tools", "globals")
        rc, out = sh(["go", "build", "-o", os.path.join(BUILD, "globals"), "."], cwd=t, env=GOENV, timeout=1200)
        return rc == 0, out


def build_harness_race():
    with Lock("harness"):
        h = os.path.join(ROOT, "harness")
        rc, out = sh(["go", "build", "-race", "-tags", "verif", "-o", os.path.join(BUILD, "sfharness-race"), "."],
                     cwd=h, env=GOENV, timeout=1800)
        return rc == 0, out


def build_harness():
    """Rebuild the Go harness against /repo's current working tree, hooks on."""
    with Lock("harness"):
        h = os.path.join(ROOT, "harness")
        shutil.copy(os.path.join(REPO, "go.sum"), os.path.join(h, "go.sum"))
        gomod = open(os.path.join(h, "go.mod")).read()
        want = "replace github.com/elastic/go-structform => %s\n" % REPO
        gomod2 = re.sub(r"replace github.com/elastic/go-structform => .*\n", want, gomod)
        if gomod2 != gomod:
            open(os.path.join(h, "go.mod"), "w").write(gomod2)
        rc, out = sh(["go", "build", "-tags", "verif", "-o", os.path.join(BUILD, "sfharness"), "."],
                     cwd=h, env=GOENV, timeout=1200)
        return rc == 0, out


# ---------------------------------------------------------------- theorems
FORBIDDEN = re.compile(r"\b(Admitted|admit|Axiom|Parameter|Conjecture|Admit Obligations|bypass_check)\b|Unset Guard|Unset Positivity|Unset Universe|type-in-type|impredicative-set")
ALLOWED_AXIOMS = set()  # none needed so far; std axioms would be named here and in DESIGN.md 8


def scan_forbidden():
    bad = []
    for f in glob.glob(os.path.join(COQ, "**", "*.v"), recursive=True):
        txt = open(f).read()
        txt = re.sub(r"\(\*.*?\*\)", "", txt, flags=re.S)
        for m in FORBIDDEN.finditer(txt):
            bad.append("%s: %s" % (os.path.relpath(f, ROOT), m.group(0)))
    return bad


def check_theorems(pid):
    """Compile Properties/<pid>.v (and only that: deps come from the full build),
    return dict(obligations, discharged, theorems=[(name, assumptions)], ok, log)."""
    src = os.path.join(COQ, "Properties", pid + ".v")
    res = dict(obligations=0, discharged=0, theorems=[], ok=False, log="")
    if not os.path.exists(src):
        res["log"] = "no theorem file yet for " + pid
        res["ok"] = True
        res["missing"] = True
        return res
    txt = open(src).read()
    names = re.findall(r"^\s*(?:Theorem|Corollary)\s+([A-Za-z0-9_']+)", txt, flags=re.M)
    res["obligations"] = len(names)
    d = os.path.join(BUILD, "props", pid)
    shutil.rmtree(d, ignore_errors=True)
    os.makedirs(d)
    shutil.copy(src, os.path.join(d, pid + ".v"))
    if pid == "C19":
        # the translator: regenerate the footprint table from /repo's sources
        ok_t, tlog = build_translator()
        if not ok_t:
            res["log"] = "translator build failed: " + tlog[-2000:]
            return res
        rc, gen = sh([os.path.join(BUILD, "globals"), REPO], env=GOENV, timeout=600)
        if rc != 0:
            res["log"] = "translator failed on /repo (does it type-check?): " + gen[-2000:]
            return res
        open(os.path.join(d, "Globals_gen.v"), "w").write(gen)
        res["generated"] = gen
        rc, out0 = sh("timeout 600 coqc -Q %s SF -Q . Gen Globals_gen.v" % COQ, cwd=d)
        if rc != 0:
            res["log"] = "generated table does not compile: " + out0[-2000:]
            return res
    rc, out = sh("timeout 1200 coqc -Q %s SF -Q . Gen %s.v" % (COQ, pid), cwd=d)
    res["log"] = out
    if rc != 0:
        return res
    # split Print Assumptions output blocks
    blocks = re.split(r"(?m)^(?=Closed under the global context|Axioms:)", out)
    blocks = [b for b in blocks if b.startswith("Closed under") or b.startswith("Axioms:")]
    ok = True
    for i, n in enumerate(names):
        if i >= len(blocks):
            ok = False
            res["theorems"].append((n, "NO Print Assumptions OUTPUT"))
            continue
        b = blocks[i].strip()
        if b.startswith("Closed under"):
            res["theorems"].append((n, "Closed under the global context"))
            res["discharged"] += 1
        else:
            axs = re.findall(r"(?m)^([A-Za-z0-9_.']+)\s*:", b)
            res["theorems"].append((n, "Axioms: " + ", ".join(axs)))
            if all(a in ALLOWED_AXIOMS for a in axs):
                res["discharged"] += 1
            else:
                ok = False
    res["ok"] = ok and res["discharged"] == res["obligations"] and res["obligations"] > 0
    if res["ok"] and TIER[0] == "thorough" and os.environ.get("VERIF_COQCHK", "1") != "0":
        # independent re-check of the compiled property file and everything it depends on
        # (cached per set of compiled files: the re-check of the heavy proof files takes more than half an hour)
        vos = sorted(glob.glob(os.path.join(COQ, "**", "*.vo"), recursive=True))
        stamp = hashlib.blake2b(("".join("%s:%d:%d;" % (v, os.path.getsize(v), int(os.path.getmtime(v))) for v in vos) + pid).encode(), digest_size=12).hexdigest()
        cache = os.path.join(BUILD, "coqchk_%s_%s.txt" % (pid, stamp))
        if os.path.exists(cache):
            rc, chk = 0, open(cache).read()
        else:
            rc, chk = sh("timeout 1500 coqchk -silent -o -Q %s SF -Q . Gen %s.vo" % (COQ, pid), cwd=d)
            if rc == 0:
                open(cache, "w").write(chk)
        summary = chk[chk.find("CONTEXT SUMMARY"):][:1500] if "CONTEXT SUMMARY" in chk else chk[-1500:]
        res["coqchk"] = summary
        axioms_none = re.search(r"\* Axioms:\s*<none>", summary) is not None
        if rc == 124:
            # the independent re-check did not finish in its time budget: the kernel's own check
            # (coqc, above) stands; say so instead of calling it a broken obligation
            res["coqchk"] = "coqchk did not finish within 1500 s on this machine (not completed, not failed); coqc accepted every file"
        elif rc != 0 or not axioms_none:
            res["ok"] = False
            res["log"] += "\ncoqchk: rc=%d\n%s" % (rc, summary)
    return res


# ---------------------------------------------------------------- case runs
def run_kind(pid, kind, seed, count, args="", binary="sfharness"):
    """Run `count` cases of `kind` through the Go implementation and the model.
    Returns dict(cases, failures=[(verdict_line, case_line)], distinct, samples, dist)."""
    d = os.path.join(BUILD, "run", pid, kind)
    shutil.rmtree(d, ignore_errors=True)
    os.makedirs(d)
    shards = min(NPROC, max(1, count // (2 if kind.startswith("longhist") else 9 if kind.startswith("big") else 200)))
    per = (count + shards - 1) // shards
    procs = []
    for i in range(shards):
        cf = os.path.join(d, "s%d.cases" % i)
        vf = os.path.join(d, "s%d.verdicts" % i)
        cmd = "set -o pipefail; ulimit -v %s; export VERIF_CUTSMAX=%d VERIF_GUARD_SCALE=%d; timeout 3000 %s gen %s %d %d %s > %s && %s < %s > %s" % (
            "unlimited" if binary != "sfharness" else "8000000", CUTSMAX[0], 10 if binary != "sfharness" else 1,
            os.path.join(BUILD, binary), kind, seed * 64 + i, per, args, cf,
            os.path.join(BUILD, "sfmodel"), cf, vf)
        procs.append((subprocess.Popen(["bash", "-c", cmd], stderr=subprocess.PIPE, text=True), cf, vf))
    res = dict(kind=kind, cases=0, failures=[], distinct=0, samples=[], errors=[], ok=0)
    seen = set()
    for p, cf, vf in procs:
        _, err = p.communicate()
        if p.returncode != 0:
            res["errors"].append("shard failed rc=%d (seed %d, kind %s): %s" % (p.returncode, seed, kind, err[-700:].replace("\n", " | ")))
            continue
        cases = open(cf, errors="backslashreplace").read().split("\n")
        if cases and cases[-1] == "":
            cases.pop()
        res["cases"] += len(cases)
        for c in cases:
            parts = c.split("\t")
            if len(parts) >= 2 and len(parts[1]) > 8:
                seen.add(hashlib.blake2b(c.encode(), digest_size=8).digest())
        if len(res["samples"]) < 3 and cases:
            res["samples"].append(cases[len(cases) // 2][:400])
        for line in open(vf, errors="backslashreplace"):
            line = line.rstrip("\n")
            if line.startswith("OK "):
                res["ok"] += 1
                continue
            m = re.match(r"(CORR|ORACLE|SKIP) (\d+) ", line)
            if not m:
                res["errors"].append("unparsable verdict: " + line[:200])
                continue
            n = int(m.group(2))
            res["failures"].append((line, cases[n - 1] if 0 < n <= len(cases) else ""))
    res["distinct"] = len(seen)
    shutil.rmtree(d, ignore_errors=True)
    return res


# ---------------------------------------------------------------- findings
def load_known():
    kn = []
    p = os.path.join(ROOT, "known-findings.txt")
    if os.path.exists(p):
        for line in open(p):
            line = line.strip()
            m = re.match(r"finding:\s+property=(\S+)\s+match=(\S+)\s+(.*)", line)
            if m:
                kn.append(dict(prop=m.group(1), rx=re.compile(m.group(2)), what=m.group(3)))
    return kn


def write_replay(pid, tag, obj):
    d = os.path.join(ROOT, "replays")
    os.makedirs(d, exist_ok=True)
    path = os.path.join(d, "%s_%s.json" % (pid, tag))
    json.dump(obj, open(path, "w"), indent=1)
    return path


# ---------------------------------------------------------------- main
def run_check(pid, tier, seed):
    t0 = time.time()
    P = PROPS[pid]
    CUTSMAX[0] = 12 if tier == "thorough" else 9
    TIER[0] = tier
    violations = []      # (replay path, suffix)
    known_lines = []
    notes = []

    ok_coq, coq_log = build_coq()
    ok_model, model_log = (False, "coq build failed") if not ok_coq else build_model()
    ok_h, h_log = build_harness()
    if not ok_h:
        # the tree does not build with hooks: nothing can be checked
        path = write_replay(pid, "build", dict(property=pid, broken="go build -tags verif of the harness against /repo",
                                              log=h_log[-3000:]))
        print("VIOLATION property=%s replay=%s no-failing-input-found" % (pid, path))
        return 1
    forb = scan_forbidden()
    thm = check_theorems(pid) if ok_coq else dict(obligations=0, discharged=0, theorems=[], ok=False, log=coq_log[-3000:])
    proof_broken = (not ok_coq) or (not thm["ok"]) or bool(forb)
    if not ok_model and not os.path.exists(os.path.join(BUILD, "sfmodel")):
        path = write_replay(pid, "model", dict(property=pid, broken="model build", log=model_log[-3000:]))
        print("VIOLATION property=%s replay=%s no-failing-input-found" % (pid, path))
        return 1

    known = [k for k in load_known() if k["prop"] == pid]
    hook = P.get("pre")
    if hook:
        hook(pid, tier, notes)

    runs = []
    race_built = [False]
    corr_fail, oracle_fail = [], []
    for spec in P["kinds"]:
        kind, nq, nt = spec[0], spec[1], spec[2]
        binary = spec[3] if len(spec) > 3 else "sfharness"
        count = nq if tier == "quick" else nt
        if binary == "sfharness-race" and not race_built[0]:
            ok_r, rlog = build_harness_race()
            race_built[0] = True
            if not ok_r:
                corr_fail.append(("HARNESS race/checkptr build failed: " + rlog[-400:], kind + "\t-"))
                continue
        r = run_kind(pid, kind, seed, count, "", binary)
        if binary != "sfharness":
            r["kind"] = kind + "@" + binary
        runs.append(r)
        for e in r["errors"]:
            corr_fail.append(("HARNESS " + e, kind + "\t-"))
        for v, c in r["failures"]:
            if v.startswith("ORACLE"):
                m = re.match(r"ORACLE \d+ \S+ (\S+) ", v)
                if m and m.group(1) == pid:
                    oracle_fail.append((v, c))
                # oracle failures for other properties are theirs to report
            else:
                corr_fail.append((v, c))

    # C19: goroutines on independent instances under the race detector
    race_info = None
    if P.get("race"):
        rounds, workers = P["race"][0 if tier == "quick" else 1]
        ok_r, rlog = build_harness_race()
        if not ok_r:
            corr_fail.append(("HARNESS race build failed: " + rlog[-400:], "race\t-"))
        else:
            env = dict(GOENV, GORACE="halt_on_error=1 exitcode=66")
            p = subprocess.run([os.path.join(BUILD, "sfharness-race"), "race", str(seed), str(rounds), str(workers)],
                               env=env, stdout=subprocess.PIPE, stderr=subprocess.PIPE, text=True, timeout=3000)
            race_info = dict(rounds=rounds, workers=workers, rc=p.returncode, tail=(p.stdout[-300:] + p.stderr[-1500:]))
            case = "race\t%d %d %d" % (seed, rounds, workers)
            if "DATA RACE" in p.stderr or p.returncode == 66:
                oracle_fail.append(("ORACLE 0 race C19 data race reported by the race detector: " + p.stderr[:1500].replace("\n", " | "), case))
            elif p.returncode != 0 or "MISMATCH" in p.stdout:
                oracle_fail.append(("ORACLE 0 race C19 a goroutine's result differs from the sequential result: " + p.stdout[:800].replace("\n", " | "), case))
            else:
                m = re.search(r"pipelines=(\d+)", p.stdout)
                runs.append(dict(kind="race", cases=int(m.group(1)) if m else 0, failures=[], distinct=int(m.group(1)) // 4 if m else 0,
                                 samples=[p.stdout.strip()[-200:]], errors=[], ok=int(m.group(1)) if m else 0))

    def is_known(v, c):
        for k in known:
            if k["rx"].search(v + "\t" + c):
                return k
        return None

    def shortest(fs):
        return sorted(fs, key=lambda vc: len(vc[1]))[0]

    # direct-oracle hits on the real code
    new_oracle = []
    for v, c in oracle_fail:
        k = is_known(v, c)
        if k:
            line = "KNOWN-FINDING: property=%s %s" % (pid, k["what"])
            if line not in known_lines:
                known_lines.append(line)
        else:
            new_oracle.append((v, c))
    if new_oracle:
        v, c = shortest(new_oracle)
        path = write_replay(pid, "oracle", dict(property=pid, kind=c.split("\t")[0], case=c, verdict=v,
                                               seed=seed, count=len(new_oracle),
                                               how="./check %s --replay <this file>" % pid))
        violations.append((path, ""))
    # broken correspondence
    new_corr = [(v, c) for v, c in corr_fail if not is_known(v, c)]
    if new_corr and not new_oracle:
        v, c = shortest(new_corr)
        path = write_replay(pid, "corr", dict(property=pid, broken="corr:" + c.split("\t")[0], case=c, verdict=v,
                                             seed=seed, count=len(new_corr),
                                             how="./check %s --replay <this file>" % pid))
        violations.append((path, " no-failing-input-found"))
    if proof_broken and not new_oracle:
        gen = thm.get("generated", "")
        sites = gen[gen.find("(* use sites"):][:4000] if "(* use sites" in gen else ""
        path = write_replay(pid, "proof", dict(property=pid, broken="proof obligations of Properties/%s.v" % pid,
                                              theorems=thm["theorems"], forbidden=forb, log=thm["log"][-3000:],
                                              generated_use_sites=sites))
        violations.append((path, " no-failing-input-found"))

    cases = sum(r["cases"] for r in runs)
    nomodel = sorted({r["kind"] for r in runs if re.match(r"(userfold|userunf|exotic|big|longhist|encreuse|wafter|deep|alias|rec$|race)", r["kind"])})
    if nomodel:
        notes.append("kinds of this run that are direct oracles WITHOUT a Coq model (expectation written by hand on the Go side, nothing proved about them): " + ", ".join(nomodel))
    ev = dict(
        property_id=pid, tier=tier, seed=seed, level=("proof" if thm["obligations"] > 0 else "exploration"),
        coverage=dict(
            obligations=thm["obligations"], discharged=thm["discharged"],
            checker_cmd="make -C coq (coqc 8.16.1, full .vo) && coqc Properties/%s.v (Print Assumptions per theorem)" % pid,
            trusted_base=P.get("trusted", []) + ["%s: %s" % (n, a) for n, a in thm["theorems"]],
            theorems=[n for n, _ in thm["theorems"]],
            evaluations=cases,
            distinct_nontrivial=sum(r["distinct"] for r in runs),
            rule=P.get("rule", "cases generated by harness/ from one splitmix64 state per case; distinct = distinct (input) lines whose input is longer than 8 characters"),
            samples=[s for r in runs for s in r["samples"]][:6] or ["(theorem-only check)"],
            correspondence={r["kind"]: dict(cases=r["cases"], agreed=r["ok"],
                                            disagreed=len([1 for v, _ in r["failures"] if v.startswith("CORR")]),
                                            oracle_failures=len([1 for v, _ in r["failures"] if v.startswith("ORACLE")]))
                            for r in runs},
            known_findings_printed=known_lines,
            coqchk=thm.get("coqchk", "(thorough tier only)"),
            notes=notes,
        ),
        assumptions=P.get("assumptions", []),
        wall_s=round(time.time() - t0, 2),
        violations=len(violations),
    )
    os.makedirs(os.path.join(ROOT, "evidence"), exist_ok=True)
    json.dump(ev, open(os.path.join(ROOT, "evidence", pid + ".json"), "w"), indent=1)
    for l in known_lines:
        print(l)
    for path, suffix in violations:
        print("VIOLATION property=%s replay=%s%s" % (pid, path, suffix))
    if not violations:
        print("OK property=%s tier=%s cases=%d theorems=%d/%d wall=%.1fs" % (
            pid, tier, cases, thm["discharged"], thm["obligations"], time.time() - t0))
    return 1 if violations else 0


def run_replay(pid, path):
    obj = json.load(open(path))
    if "case" not in obj:
        print("replay file names a broken obligation, not an input: %s" % obj.get("broken"))
        print(json.dumps(obj, indent=1)[:3000])
        return 1
    ok_h, h_log = build_harness()
    build_coq(); build_model()
    case = obj["case"]
    parts = case.split("\t")
    if parts[0] == "race":
        ok_r, rlog = build_harness_race()
        a = parts[1].split()
        p = subprocess.run([os.path.join(BUILD, "sfharness-race"), "race"] + a, env=dict(GOENV, GORACE="halt_on_error=1 exitcode=66"),
                           stdout=subprocess.PIPE, stderr=subprocess.PIPE, text=True)
        print(p.stdout[-500:]); print(p.stderr[-3000:])
        if p.returncode != 0:
            print("VIOLATION property=%s replay=%s" % (pid, path))
            return 1
        return 0
    p = subprocess.run("%s replay | tee /dev/stderr | %s" % (os.path.join(BUILD, "sfharness"), os.path.join(BUILD, "sfmodel")),
                       shell=True, input=parts[0] + "\t" + parts[1] + "\n", stdout=subprocess.PIPE, text=True)
    print(p.stdout.strip())
    bad = [l for l in p.stdout.split("\n") if l and not l.startswith("OK ")]
    if bad:
        print("VIOLATION property=%s replay=%s" % (pid, path))
        return 1
    return 0


def main(argv):
    if not argv:
        print(__doc__)
        return 2
    pid = argv[0]
    if pid == "setup":
        ok, out = build_coq()
        if not ok:
            print(out[-3000:])
            return 1
        ok, out = build_model()
        if not ok:
            print(out[-3000:])
            return 1
        ok, out = build_harness()
        if not ok:
            print(out[-3000:])
            return 1
        print("setup ok")
        return 0
    if pid not in PROPS:
        print("unknown property", pid)
        return 2
    tier = os.environ.get("VERIF_TIER", "quick")
    replay = None
    i = 1
    while i < len(argv):
        if argv[i] in ("quick", "thorough"):
            tier = argv[i]
        elif argv[i] == "--replay":
            replay = argv[i + 1]
            i += 1
        i += 1
    seed = int(os.environ.get("VERIF_SEED", "1") or "1")
    if replay:
        return run_replay(pid, replay)
    try:
        return run_check(pid, tier, seed)
    except Exception:
        # the machinery itself failed on this tree: the property is not shown to hold
        import traceback
        path = write_replay(pid, "machinery", dict(property=pid, broken="check machinery raised an exception",
                                                   log=traceback.format_exc()[-3000:]))
        print("VIOLATION property=%s replay=%s no-failing-input-found" % (pid, path))
        return 1
