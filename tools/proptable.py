"""Per-property plan: which case kinds (correspondence + direct oracle) a check runs.
kinds: (kind, quick count, thorough count[, extra harness args])"""

COMMON_TB = [
    "Coq 8.16.1 kernel (coqc, full .vo build; vm_compute used; native_compute not used)",
    "extraction: ExtrOcamlBasic only, Z/positive/nat kept as extracted inductives; OCaml 4.13.1; ocaml/driver.ml",
    "correspondence check (sampling): harness/ Go program vs extracted model on identical cases",
]

PROPS = {
    "C20": dict(
        kinds=[("lru", 20000, 2000000), ],
        trusted=COMMON_TB + ["Go map modelled as association list; linked ring modelled as the list read from lst.next"],
        assumptions=["keys are arbitrary byte strings; capacity any int (negative = never full)"],
    ),
}
