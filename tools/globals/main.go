// globals: the C19 translator.  Type-checks the library packages of /repo (go/packages,
// golang.org/x/tools v0.29.0 from the module cache, offline) and lists every package-level
// variable together with every use outside its declaration and outside init() through
// which it - or what it refers to - could be modified.  Prints coq/Conc/Globals_gen.v.
//
// A variable is reported with
//   class    CValue   value semantics all the way (basic types, strings, arrays/structs of such,
//                     reflect.Type, error values from errors.New / fmt.Errorf, funcs)
//            CFrozen  refers to shared memory (pointer / slice / map / interface holding such)
//                     whose contents no function of the library writes: a struct type none of
//                     whose fields is ever assigned, address-taken or modified through a
//                     pointer-receiver method (field-less structs trivially), or a []byte/string table
//            CShared  refers to shared memory that some function may write
//   assign    direct assignments to the variable outside init()
//   elem      writes through the variable (x[i] = .., x.f = .., *x = .., x.f++)
//   addr      &x, &x[i], &x.f taken; x[:] of an array-typed variable (a slice aliasing the variable),
//             unless it goes straight into a struct field that the library only ever reads
//             (no element write through the field anywhere, every read of the field is an index
//             read, len/cap, range, or a local copy that is itself only read that way)
//   escape    for CShared only: uses that hand the reference on (argument, return, copy)
package main

import (
	"fmt"
	"go/ast"
	"go/token"
	"go/types"
	"os"
	"sort"
	"strings"

	"golang.org/x/tools/go/packages"
)

type global struct {
	pkg, name string
	obj       *types.Var
	class     string
	assign    int
	elem      int
	addr      int
	escape    int
	sites     []string
}

var libPkgs = []string{
	"github.com/elastic/go-structform",
	"github.com/elastic/go-structform/cborl",
	"github.com/elastic/go-structform/ubjson",
	"github.com/elastic/go-structform/json",
	"github.com/elastic/go-structform/gotype",
	"github.com/elastic/go-structform/internal/unsafe",
	"github.com/elastic/go-structform/visitors",
}

var readOnlyField func(f *types.Var) bool

func main() {
	root := os.Args[1]
	cfg := &packages.Config{
		Mode: packages.NeedName | packages.NeedFiles | packages.NeedSyntax | packages.NeedTypes | packages.NeedTypesInfo | packages.NeedImports | packages.NeedDeps,
		Dir:  root,
		Env:  append(os.Environ(), "GOFLAGS=-mod=mod", "GOPROXY=off", "GOSUMDB=off", "GOTOOLCHAIN=local"),
	}
	pkgs, err := packages.Load(cfg, libPkgs...)
	if err != nil {
		fmt.Fprintln(os.Stderr, "load:", err)
		os.Exit(2)
	}
	for _, p := range pkgs {
		for _, e := range p.Errors {
			fmt.Fprintln(os.Stderr, "package error:", e)
			os.Exit(2)
		}
	}

	// ---- pass 1: which struct fields / pointees are ever written by library code ----
	fieldWritten := map[*types.Var]bool{}   // field assigned, inc/dec'ed, address taken
	fieldElemWritten := map[*types.Var]bool{} // an element of the slice / map / array held in the field written, or its address taken
	typeStarWritten := map[string]bool{}    // *p = ... for p of type *T  (key: T's string)
	ptrMethodMutates := map[string]bool{}   // named types having a pointer-receiver method that writes a field (approximation: any pointer-receiver method on a type with written fields)
	var markLHS func(info *types.Info, e ast.Expr)
	markLHS = func(info *types.Info, e ast.Expr) {
		switch v := e.(type) {
		case *ast.ParenExpr:
			markLHS(info, v.X)
		case *ast.SelectorExpr:
			if sel := info.Selections[v]; sel != nil && sel.Kind() == types.FieldVal {
				if f, ok := sel.Obj().(*types.Var); ok {
					fieldWritten[f] = true
				}
				// embedded path: the implicit fields are written into as well
			}
			markLHS(info, v.X) // x.a.b = ..: for value-typed a this also writes into field a
		case *ast.IndexExpr:
			// writing an element of an array-typed field writes the field
			if tv, ok := info.Types[v.X]; ok {
				if _, isArr := tv.Type.Underlying().(*types.Array); isArr {
					markLHS(info, v.X)
				}
			}
			if se, ok := v.X.(*ast.SelectorExpr); ok {
				// slice / map held in a field: the contents are shared with whoever holds the field value
				if sel := info.Selections[se]; sel != nil && sel.Kind() == types.FieldVal {
					if f, ok := sel.Obj().(*types.Var); ok {
						fieldWritten[f] = true
						fieldElemWritten[f] = true
					}
				}
			}
		case *ast.StarExpr:
			if tv, ok := info.Types[v.X]; ok {
				if pt, ok := tv.Type.Underlying().(*types.Pointer); ok {
					typeStarWritten[pt.Elem().String()] = true
				}
			}
		}
	}
	for _, p := range pkgs {
		info := p.TypesInfo
		for _, f := range p.Syntax {
			ast.Inspect(f, func(n ast.Node) bool {
				switch s := n.(type) {
				case *ast.AssignStmt:
					for _, l := range s.Lhs {
						markLHS(info, l)
					}
				case *ast.IncDecStmt:
					markLHS(info, s.X)
				case *ast.RangeStmt:
					if s.Tok == token.ASSIGN {
						if s.Key != nil {
							markLHS(info, s.Key)
						}
						if s.Value != nil {
							markLHS(info, s.Value)
						}
					}
				case *ast.UnaryExpr:
					if s.Op == token.AND {
						markLHS(info, s.X) // an address of a field may be written through later
					}
				}
				return true
			})
		}
	}
	_ = ptrMethodMutates

	// ---- pass 1b: fields whose (slice) value is only ever read element-wise ----
	// fieldLeaks[f]: some use of x.f other than an index read, len/cap, range, a comparison with
	// nil, being assigned to, or a copy into a local variable that is only read in those ways.
	fieldLeaks := map[*types.Var]bool{}
	for _, p := range pkgs {
		info := p.TypesInfo
		fieldOf := func(e ast.Expr) *types.Var {
			if se, ok := e.(*ast.SelectorExpr); ok {
				if sel := info.Selections[se]; sel != nil && sel.Kind() == types.FieldVal {
					if f, ok := sel.Obj().(*types.Var); ok {
						return f
					}
				}
			}
			return nil
		}
		for _, file := range p.Syntax {
			// locals that hold a copy of a field: local object -> field
			localOf := map[types.Object]*types.Var{}
			ast.Inspect(file, func(n ast.Node) bool {
				if as, ok := n.(*ast.AssignStmt); ok && len(as.Lhs) == len(as.Rhs) {
					for i, r := range as.Rhs {
						if f := fieldOf(r); f != nil {
							if id, ok := as.Lhs[i].(*ast.Ident); ok {
								if o := info.ObjectOf(id); o != nil {
									localOf[o] = f
								}
							}
						}
					}
				}
				return true
			})
			var stack []ast.Node
			readOnlyUse := func(e ast.Expr, parent ast.Node, grand ast.Node) bool {
				switch q := parent.(type) {
				case *ast.IndexExpr:
					if q.X != e {
						return true // used as an index
					}
					// x.f[i]: a read unless it is the target of an assignment / inc-dec / address-of
					switch g := grand.(type) {
					case *ast.AssignStmt:
						for _, l := range g.Lhs {
							if l == ast.Expr(q) {
								return false
							}
						}
					case *ast.IncDecStmt:
						return false
					case *ast.UnaryExpr:
						if g.Op == token.AND {
							return false
						}
					}
					return true
				case *ast.RangeStmt:
					return q.X == e
				case *ast.CallExpr:
					if f, ok := q.Fun.(*ast.Ident); ok && (f.Name == "len" || f.Name == "cap") {
						return true
					}
					return false
				case *ast.BinaryExpr:
					return q.Op == token.EQL || q.Op == token.NEQ
				case *ast.AssignStmt:
					for _, l := range q.Lhs {
						if l == e {
							return true // the field / local itself is assigned
						}
					}
					// x.f on the right-hand side: fine only as "local := x.f" (tracked above)
					for i, r := range q.Rhs {
						if r == e && len(q.Lhs) == len(q.Rhs) {
							if id, ok := q.Lhs[i].(*ast.Ident); ok {
								if o := info.ObjectOf(id); o != nil {
									if _, tracked := localOf[o]; tracked {
										return true
									}
								}
							}
						}
					}
					return false
				case *ast.KeyValueExpr:
					return q.Key == e // field name in a composite literal
				}
				return false
			}
			ast.Inspect(file, func(n ast.Node) bool {
				if n == nil {
					stack = stack[:len(stack)-1]
					return true
				}
				var parent, grand ast.Node
				if len(stack) >= 1 {
					parent = stack[len(stack)-1]
				}
				if len(stack) >= 2 {
					grand = stack[len(stack)-2]
				}
				switch e := n.(type) {
				case *ast.SelectorExpr:
					if f := fieldOf(e); f != nil {
						if _, isSlice := f.Type().Underlying().(*types.Slice); isSlice && !readOnlyUse(e, parent, grand) {
							fieldLeaks[f] = true
						}
					}
				case *ast.Ident:
					if o := info.Uses[e]; o != nil {
						if f, ok := localOf[o]; ok && !readOnlyUse(e, parent, grand) {
							fieldLeaks[f] = true
						}
					}
				}
				stack = append(stack, n)
				return true
			})
		}
	}
	readOnlyField = func(f *types.Var) bool { return !fieldElemWritten[f] && !fieldLeaks[f] }

	// is the memory reachable from a value of type t never written by library code?
	var frozen func(t types.Type, seen map[types.Type]bool) bool
	frozen = func(t types.Type, seen map[types.Type]bool) bool {
		if seen[t] {
			return true
		}
		seen[t] = true
		if n, ok := t.(*types.Named); ok {
			if n.Obj().Pkg() != nil && n.Obj().Pkg().Path() == "reflect" && n.Obj().Name() == "Type" {
				return true
			}
			if n.Obj().Pkg() == nil && n.Obj().Name() == "error" {
				return true
			}
		}
		switch u := t.Underlying().(type) {
		case *types.Basic:
			return true
		case *types.Signature:
			return true
		case *types.Array:
			return frozen(u.Elem(), seen)
		case *types.Struct:
			for i := 0; i < u.NumFields(); i++ {
				f := u.Field(i)
				if fieldWritten[f] || !frozen(f.Type(), seen) {
					return false
				}
			}
			return !typeStarWritten[t.String()]
		case *types.Pointer:
			return !typeStarWritten[u.Elem().String()] && frozen(u.Elem(), seen)
		case *types.Interface:
			// what an interface-typed field holds is judged where that value is created; an
			// interface value itself is immutable
			return true
		case *types.Slice, *types.Map, *types.Chan:
			return false
		}
		return false
	}
	valueLike := func(t types.Type) bool {
		var vl func(t types.Type) bool
		vl = func(t types.Type) bool {
			if n, ok := t.(*types.Named); ok {
				if n.Obj().Pkg() != nil && n.Obj().Pkg().Path() == "reflect" && n.Obj().Name() == "Type" {
					return true
				}
				if n.Obj().Pkg() == nil && n.Obj().Name() == "error" {
					return true
				}
			}
			switch u := t.Underlying().(type) {
			case *types.Basic, *types.Signature:
				return true
			case *types.Array:
				return vl(u.Elem())
			case *types.Struct:
				for i := 0; i < u.NumFields(); i++ {
					if !vl(u.Field(i).Type()) {
						return false
					}
				}
				return true
			}
			return false
		}
		return vl(t)
	}

	// ---- pass 2: the globals and their uses ----
	var all []*global
	byObj := map[*types.Var]*global{}
	for _, p := range pkgs {
		scope := p.Types.Scope()
		for _, name := range scope.Names() {
			v, ok := scope.Lookup(name).(*types.Var)
			if !ok {
				continue
			}
			pos := p.Fset.Position(v.Pos())
			if strings.HasSuffix(pos.Filename, "_test.go") {
				continue
			}
			short := strings.TrimPrefix(strings.TrimPrefix(p.PkgPath, "github.com/elastic/go-structform"), "/")
			if short == "" {
				short = "structform"
			}
			g := &global{pkg: short, name: name, obj: v}
			switch {
			case valueLike(v.Type()):
				g.class = "CValue"
			case isByteTable(v.Type()) || frozen(v.Type(), map[types.Type]bool{}):
				g.class = "CFrozen"
			default:
				g.class = "CShared"
			}
			all = append(all, g)
			byObj[v] = g
		}
	}

	for _, p := range pkgs {
		info := p.TypesInfo
		for _, f := range p.Syntax {
			for _, d := range f.Decls {
				fd, ok := d.(*ast.FuncDecl)
				if !ok || fd.Body == nil {
					continue
				}
				if fd.Recv == nil && fd.Name.Name == "init" {
					continue // init() happens before any use of the package
				}
				walk(p.Fset, info, fd, byObj)
			}
		}
	}

	sort.Slice(all, func(i, j int) bool {
		if all[i].pkg != all[j].pkg {
			return all[i].pkg < all[j].pkg
		}
		return all[i].name < all[j].name
	})
	fmt.Println("(* GENERATED by tools/globals from the type-checked .go files of /repo on every run - do not edit. *)")
	fmt.Println("From SF Require Import Base.Prelude Conc.NonInterference.")
	fmt.Println("Open Scope Z_scope.")
	fmt.Println("Definition globals : list ginfo := [")
	for i, g := range all {
		sep := ";"
		if i == len(all)-1 {
			sep = ""
		}
		fmt.Printf("  mk_ginfo %s %s %s %d %d %d %d%s\n", coqStr(g.pkg), coqStr(g.name), g.class, g.assign, g.elem, g.addr, g.escape, sep)
	}
	fmt.Println("].")
	fmt.Println("(* use sites counted above:")
	for _, g := range all {
		for _, s := range g.sites {
			fmt.Printf("   %s.%s (%s): %s\n", g.pkg, g.name, g.class, s)
		}
	}
	fmt.Println("*)")
}

// []byte / string tables written only by their initialiser: json symbols, hex digits.
// Handing them to io.Writer.Write is covered by the io.Writer contract ("Write must not
// modify the slice data"); element writes by library code are still counted as [elem].
func isByteTable(t types.Type) bool {
	if s, ok := t.Underlying().(*types.Slice); ok {
		if b, ok := s.Elem().Underlying().(*types.Basic); ok && b.Kind() == types.Uint8 {
			return true
		}
	}
	return false
}

func coqStr(s string) string {
	parts := make([]string, len(s))
	for i := 0; i < len(s); i++ {
		parts[i] = fmt.Sprint(int(s[i]))
	}
	return "[" + strings.Join(parts, ";") + "]"
}

func walk(fset *token.FileSet, info *types.Info, fd *ast.FuncDecl, byObj map[*types.Var]*global) {
	site := func(g *global, n ast.Node, what string) {
		pos := fset.Position(n.Pos())
		g.sites = append(g.sites, fmt.Sprintf("%s %s:%d (func %s)", what, shortFile(pos.Filename), pos.Line, fd.Name.Name))
	}
	globalOf := func(id *ast.Ident) *global {
		if v, ok := info.Uses[id].(*types.Var); ok {
			return byObj[v]
		}
		return nil
	}
	root := func(e ast.Expr) (*ast.Ident, bool) { // root identifier of x, x[i], x.f, *x; direct = e is the identifier
		direct := true
		for {
			switch v := e.(type) {
			case *ast.Ident:
				return v, direct
			case *ast.IndexExpr:
				e, direct = v.X, false
			case *ast.SelectorExpr:
				if _, isPkg := info.Uses[identOf(v.X)].(*types.PkgName); isPkg {
					return v.Sel, direct // pkg.Var
				}
				e, direct = v.X, false
			case *ast.StarExpr:
				e, direct = v.X, false
			case *ast.ParenExpr:
				e = v.X
			case *ast.SliceExpr:
				e, direct = v.X, false
			default:
				return nil, false
			}
		}
	}
	// slice expressions that go straight into a struct field the library only reads
	sliceIntoReadOnlyField := map[*ast.SliceExpr]bool{}
	fieldVar := func(e ast.Expr) *types.Var {
		if se, ok := e.(*ast.SelectorExpr); ok {
			if sel := info.Selections[se]; sel != nil && sel.Kind() == types.FieldVal {
				if f, ok := sel.Obj().(*types.Var); ok {
					return f
				}
			}
		}
		return nil
	}
	ast.Inspect(fd.Body, func(n ast.Node) bool {
		switch s := n.(type) {
		case *ast.AssignStmt:
			if len(s.Lhs) == len(s.Rhs) {
				for i, r := range s.Rhs {
					if sl, ok := r.(*ast.SliceExpr); ok {
						if f := fieldVar(s.Lhs[i]); f != nil && readOnlyField(f) {
							sliceIntoReadOnlyField[sl] = true
						}
					}
				}
			}
		case *ast.KeyValueExpr:
			if sl, ok := s.Value.(*ast.SliceExpr); ok {
				if id, ok := s.Key.(*ast.Ident); ok {
					if f, ok := info.Uses[id].(*types.Var); ok && f.IsField() && readOnlyField(f) {
						sliceIntoReadOnlyField[sl] = true
					}
				}
			}
		}
		return true
	})
	handled := map[*ast.Ident]bool{}
	lhs := func(e ast.Expr) {
		id, direct := root(e)
		if id == nil {
			return
		}
		if g := globalOf(id); g != nil {
			handled[id] = true
			if direct {
				g.assign++
				site(g, e, "assigned")
			} else {
				g.elem++
				site(g, e, "written through")
			}
		}
	}
	ast.Inspect(fd.Body, func(n ast.Node) bool {
		switch s := n.(type) {
		case *ast.AssignStmt:
			for _, l := range s.Lhs {
				lhs(l)
			}
		case *ast.IncDecStmt:
			lhs(s.X)
		case *ast.RangeStmt:
			if s.Tok == token.ASSIGN {
				if s.Key != nil {
					lhs(s.Key)
				}
				if s.Value != nil {
					lhs(s.Value)
				}
			}
		case *ast.UnaryExpr:
			if s.Op == token.AND {
				if id, _ := root(s.X); id != nil {
					if g := globalOf(id); g != nil {
						handled[id] = true
						g.addr++
						site(g, s, "address taken")
					}
				}
			}
		case *ast.SliceExpr:
			// x[:] of an array-typed package-level variable: a slice that aliases the variable
			if id, direct := root(s.X); id != nil && direct {
				if g := globalOf(id); g != nil {
					if _, isArr := g.obj.Type().Underlying().(*types.Array); isArr && !sliceIntoReadOnlyField[s] {
						g.addr++
						site(g, s, "slice of the array taken")
					}
				}
			}
		}
		return true
	})
	// every other use of a CShared global hands the reference on, except plain reads:
	// x[i], len(x), range x, x == y, x(...), x.f / x.M(...) (method effects are judged by the
	// frozen analysis of the receiver type: CShared means it may be written)
	var stack []ast.Node
	ast.Inspect(fd.Body, func(n ast.Node) bool {
		if n == nil {
			stack = stack[:len(stack)-1]
			return true
		}
		if id, ok := n.(*ast.Ident); ok && !handled[id] {
			if g := globalOf(id); g != nil && g.class == "CShared" {
				parent := stack[len(stack)-1]
				if se, ok := parent.(*ast.SelectorExpr); ok && se.Sel == id && len(stack) >= 2 {
					parent = stack[len(stack)-2] // pkg.Var
				}
				fine := false
				switch p := parent.(type) {
				case *ast.SelectorExpr:
					// x.f is a read; x.M(..) with a pointer receiver may modify what x refers to
					if p.X == ast.Expr(id) {
						if sel := info.Selections[p]; sel != nil && sel.Kind() == types.FieldVal {
							fine = true
						}
					}
				case *ast.IndexExpr:
					fine = p.X == id
				case *ast.RangeStmt:
					fine = p.X == id
				case *ast.BinaryExpr:
					fine = p.Op == token.EQL || p.Op == token.NEQ
				case *ast.CallExpr:
					if f, isId := p.Fun.(*ast.Ident); isId && (f.Name == "len" || f.Name == "cap") {
						fine = true
					}
					if p.Fun == ast.Expr(id) {
						fine = true
					}
				}
				if !fine {
					g.escape++
					site(g, id, "reference handed on")
				}
			}
		}
		stack = append(stack, n)
		return true
	})
}

func identOf(e ast.Expr) *ast.Ident {
	if id, ok := e.(*ast.Ident); ok {
		return id
	}
	return nil
}

func shortFile(f string) string {
	if i := strings.Index(f, "/repo/"); i >= 0 {
		return f[i+6:]
	}
	return f
}
